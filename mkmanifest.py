#!/usr/bin/env python3
"""Generates MANIFEST.json from the table below (kept in one place so it is always valid)."""
import json, os
CHECKS = {
 "C17": dict(cat="exploration", engine="enum",
   technique="bounded-exhaustive enumeration of all strings/lists/templates over a small alphabet against reference splitters, inside the real packages",
   text="Every argument list / raw string / constraint expression / template up to the stated length over an alphabet of all metacharacters is enumerated and the real function is compared with a reference (round-trip law, go/build/constraint, a reference expander). Exhaustive within the bound, so any change that mishandles some combination of <=3-7 metacharacters is found.",
   note="Reference splitters are written from the documented grammar; pkg-config is a canned script; lengths bounded (quick: args<=3 chars x lists<=2, raw<=5; thorough: raw<=7).", ref="§4 C17"),
 "C18": dict(cat="model_checking", engine="enum",
   technique="explicit enumeration of all inheritance forests (<=3 nodes x all define-patterns; 4 nodes thorough) through the real Loader vs an independent resolver on the raw JSON",
   text="Every forest of <=3 descriptions with <=2 ordered parents each (chains, diamonds, self-loops, 2/3-cycles, missing parents) x every subset of nodes defining every Config field (fields found by reflection) is written to disk and loaded with cold and warm caches in both orders; results must equal an independent resolver, missing/cyclic parents must give an error (run in a child process so a crash or hang is observed). All shipped targets are resolved in three load orders against the same reference.",
   note="'defined' = non-zero value; forests are bounded at 3 nodes (4 in thorough, rotating define-patterns); useTarget's flag derivation is not covered.", ref="§4 C18"),
 "C20": dict(cat="exploration", engine="enum",
   technique="bounded-exhaustive enumeration of archive entry sequences x 3 formats through the real extract functions in a canary sandbox",
   text="Every sequence of <=2 (thorough <=3) entries from a 20-entry pool covering every escape shape (.. at several depths, sibling-prefix names, absolute, symlink-then-file) and every well-formedness wrinkle (missing parent entries, duplicates, clashes) is packed as tar.gz, zip and tar.xz and extracted by the real code; nothing outside the destination may change, escaping entries must give an error, well-formed archives must be re-created byte for byte.",
   note="Concurrent-request part (flock/rename protocol under the scheduler) is not built yet; GNU tar 1.34 is the tar.xz back end.", ref="§4 C20"),
 "C10": dict(cat="model_checking", engine="sched",
   technique="stateless model checking of the real z_chan.go under a controlled scheduler: all interleavings within preemption/spurious-wake bounds, outcomes checked against a reference Go-channel LTS",
   text="The channel source is taken from the working tree at check time and run on stand-ins for pthread mutex/cond whose every operation is a scheduling point. For every scenario of the families (1-2 channels of capacity 0-2, 2-3 threads, <=3 operations each incl. try-ops and 2-case selects) every interleaving with <=2 (thorough 3) preemptions, every Signal waiter choice and <=1 spurious wake-up is executed; each terminal outcome (per-thread observations and who is still blocked) must be an outcome of an exhaustively enumerated reference LTS of Go's channel semantics, and the ring-buffer invariants must hold at every scheduling point. Exactly-once/FIFO delivery, capacity, close wake-ups, select commitment and absence of lost wake-ups are all consequences of outcome-set inclusion.",
   note="Sequentially consistent memory; pthread semantics as modelled (Signal wakes any waiter, bounded spurious wake-ups); scenarios bounded as listed; select/try-op deviations that are genuine defects of llgo's select are listed per (scenario => outcome) in known/C10_*.txt.", ref="§4 C10"),
 "C11": dict(cat="model_checking", engine="sched",
   technique="stateless model checking of the real sema_llgo.go (semaphores, notify list) under a controlled scheduler against reference semaphore/ticket specifications",
   text="semaAcquire/semaRelease and the notify-list functions are run from the working-tree source with every mutex, condition variable and atomic operation a scheduling point: all programs of <=3 Acquire/Release operations on 1-2 semaphores for 2-3 threads, and all waiter/notifier mixes for 2-3 threads, under every interleaving within the bounds. A terminal state must be reachable in the reference specification, which rules out lost wake-ups (a thread asleep while the count is positive or its ticket is covered), over-admission and waits that return without a notification.",
   note="sync.Mutex/RWMutex/WaitGroup/Once/Cond are Go's own code on top of these primitives (not re-explored); hardware memory ordering of atomics, the go statement and atomic.Value are not covered yet.", ref="§4 C11"),
 "C16": dict(cat="exploration", engine="enum",
   technique="bounded-exhaustive enumeration of directory trees x go:embed pattern lists, real goembed package vs `go list` of the reference toolchain",
   text="Every subset of <=2 (thorough 3) of 22 tree entries chosen around Go's embed rules (hidden and underscore names, all:, VCS directories, nested modules, empty dirs, symlinks, invalid names, sibling-prefix names) plus the full tree, crossed with 41 pattern lists and directive-text variants, is materialised on disk; LoadDirectives/ResolvePatterns must accept exactly what `go list` accepts and embed exactly the same files with the bytes on disk, and BuildFSEntries must produce the table order embed.FS searches.",
   note="Oracle is go1.24.0's go list; the materialisation of embedded data into globals by cl/embed.go (compiled programs) is not covered yet.", ref="§4 C16"),
 "C02": dict(cat="exploration", engine="tc",
   technique="bounded-exhaustive differential execution: table-driven evaluators (8-bit operand space complete, boundary products above) built by llgo and by go1.24.0",
   text="Eight generated evaluator programs cover every operator and conversion: all 65,536 operand pairs per binary operator on int8/uint8 (variable/variable) plus constant-operand forms on either side, all values for 8- and 16-bit unary operators and conversions to every numeric type, the full cross product of a boundary alphabet (incl. rounding witnesses for int->float) for 32/64-bit types, shifts over operand type x count type x boundary counts with variable and constant counts, float and complex arithmetic on special values. Each row of results must equal the reference toolchain's, on the LLVM-14 -O0 back end and on the same IR optimised by clang 22 -O2; divide-by-zero and negative shifts must panic (and nothing else may).",
   note="64-bit operand spaces are covered on boundary alphabets only; NaN sign/payload not compared; O2 = clang 22 on llgo's -O0 IR.", ref="§4 C02"),
 "C03": dict(cat="exploration", engine="tc",
   technique="bounded-exhaustive differential execution of index/slice forms and fault probes (panic decision, side-effect trace, repeatability) against go1.24.0",
   text="Every 1/2/3-index form on slices, arrays, array pointers and strings x 9 index types x containers whose lengths straddle the narrow index types' ranges x the full product of boundary index values as run-time values, constant-index forms on run-time sized containers, and 74 fault probes (nil dereference at offsets 0/4800/1 MiB, maps, assertions, division, make, slice-to-array, channel misuse, evaluation-order traces), each once, three times in one goroutine and once in a fresh goroutine. The panic/no-panic decision, the trace of side effects before and after, and the result descriptors must equal the reference toolchain's.",
   note="Panic values are not compared. Known findings (repeated SIGSEGV in one thread, discarded nil loads, nil *array slicing, select-send on closed channel) are listed per case in known_findings.txt.", ref="§4 C03"),
 "C05": dict(cat="model_checking", engine="enum",
   technique="explicit enumeration of all operation sequences up to a depth on the real slices in lock-step with a reference model; exhaustive string alphabet vs go1.24.0",
   text="For seven element types (sizes 0,1,2,3,8,24 and strings) every sequence of <=4 operations (big start states: 2) from a 24-operation alphabet (append one/many/self/overlapping tail, delete idiom, copy overlapping in both directions, 2- and 3-index reslices, clear, stores through either variable, aliasing, make) is replayed on fresh slices from 12 start states around the growth thresholds; after each step len, capacity consistency and every element are compared with a reference model that adopts the capacity the implementation chose and requires fresh storage on growth and sharing otherwise; a final write-through probe checks aliasing. Strings: every byte string of length <=3 over 12 bytes spanning every UTF-8 error class through range/[]rune/[]byte/indexing/substrings/comparison/concatenation and integer conversions, compared with go1.24.0.",
   note="The model is validated by running the same program under go1.24.0. Depth and start-state bounds as stated; capacities after growth are implementation-defined and not compared.", ref="§4 C05"),
 "C06": dict(cat="model_checking", engine="enum",
   technique="explicit enumeration of all operation histories up to a depth from start states straddling every growth boundary, differential vs go1.24.0 plus in-program iteration specification",
   text="Seven key/value shapes (ints, strings, floats incl. signed zeros/NaN/Inf, interface keys of mixed dynamic types, arrays, struct keys with 200-byte values (indirect elems), 136-byte keys (indirect keys), zero-size values) x 54 start states (18 populations on both sides of each load-factor boundary, built by ascending inserts, by insert/delete/re-insert, by make with hint) x every sequence of <=3 (small) / <=2 operations from a 28-operation alphabet incl. five range-with-mutation loops; an order-independent digest of the resulting map is compared with the reference toolchain and the iteration specification (present-throughout exactly once, never a deleted or duplicate entry) is checked inside the program; every binary runs under several interposed hash seeds.",
   note="Hash seed/iteration start are owned through an LD_PRELOAD rand() seam; iteration order itself is never compared; depth bounds as stated.", ref="§4 C06"),
 "C07": dict(cat="exploration", engine="enum",
   technique="bounded-exhaustive type grammar: partition by run-time type name vs partition by go/types.Identical (in-process), plus differential end-to-end programs",
   text="All 27k types of constructor depth <=2 over 30 base types (named types of two packages with equal names, function-local types, generic instances, aliases) with every composite constructor and near-miss attribute (field names, owning package of unexported names, tags, embedding, variadic, channel direction, method signatures) are named by the real Builder.TypeName; the grouping by name must coincide with the grouping by types.Identical, which decides every pair. End-to-end: 34 identical/near-miss pairs across packages through assertion, type switch, ==, interface-keyed maps and reflect; all (method-set subset, receiver kind, value/pointer) x interface-subset pairs with dispatch traces, embedding and shadowing.",
   note="types.Identical is the specification; the grouping index is validated against it on >100k pairs each run.", ref="§4 C07"),
 "C08": dict(cat="exploration", engine="enum",
   technique="bounded-exhaustive type grammar through the three real layout computations on five targets (in-process), plus host end-to-end comparison incl. gcc",
   text="6.5k types x {amd64, arm64, 386, arm, wasm}: Sizeof/Alignof/Offsetsof from the Sizes that fold unsafe.*, the LLVM alloc size/ABI alignment/element offsets used by generated code, and the descriptor table's Size/Align plus map bucket arithmetic must agree pairwise. Host: compiled programs compare unsafe constants, address differences/array strides and reflect for all structs of <=2 C-compatible fields and Go-only shapes, and the C-compatible ones against gcc's sizeof/_Alignof/offsetof.",
   note="Three confirmed root causes of disagreement (zero-size tail fields; 8-byte scalars on 32-bit targets; StdSizes on wasm) are recorded per (target,type) in known/C08_*.txt.", ref="§4 C08"),
 "C12": dict(cat="exploration", engine="tc",
   technique="exhaustive enumeration of import DAGs up to isomorphism x content variants, differential trace vs go1.24.0 on the order the property fixes",
   text="Every import DAG on <=3 library packages (thorough: all 31 on 4) with main importing the roots or everything, crossed with content variants (dependencies against file order, several init functions per file, blank variables and imports, cross-package initialisers, an initialiser using the patched sync/atomic): the trace must contain every initialiser/init exactly once, each package's own sequence must equal the reference toolchain's, each package must start only after every package it uses has finished, and main.main comes last.",
   note="The relative order of independent packages is not part of the property and is not compared (llgo follows import order, Go >= 1.21 sorts by path). Only build mode exe is executed.", ref="§4 C12"),
 "C01": dict(cat="exploration", engine="tc",
   technique="bounded-exhaustive program families over the core language, differential execution vs go1.24.0 on two back ends and two package layouts",
   text="Three enumerated program families: every outer x inner pair of 20 control constructs with 5 leaf behaviours, traced for three inputs; 14 callee kinds x 6 call forms, compiled in one package and split over two; 15 value types through copy/by-value/tuple assignment with side-effecting operands/aliasing/boxing/zero values/equality. Output and termination of every generated function must equal the reference toolchain's on the LLVM-14 -O0 back end and on the same IR optimised by clang 22 -O2 (thorough: also without GC).",
   note="Small-scope hypothesis: nesting depth 2. O2 means clang 22 on llgo's -O0 IR; llgo's own RunPasses plumbing is not exercised (LLVM 14's pipeline crashes on this IR).", ref="§4 C01"),
 "C09": dict(cat="exploration", engine="tc",
   technique="bounded-exhaustive enumeration of C struct shapes x parameter positions, checksummed on both sides of the real Go/C boundary",
   text="Every struct of 1-3 fields (thorough 4) over {int8,int16,int32,int64,float32,float64,pointer}, larger homogeneous/alternating shapes up to 96 bytes and 13 nested/array shapes, in 9 positions (sole argument, after 6 integer arguments, after 8 doubles, result, argument+result, value loaded through a pointer whose pointee then changes, C->Go callback parameter and result with a func literal and a named func): the receiver's checksum of the field values must equal the sender's. The C side is compiled by the host C compiler through llgo's LLGoFiles path.",
   note="amd64 only. Struct splitting after register exhaustion and one invalid-IR shape are recorded known findings (known/C09_*.txt).", ref="§4 C09"),
 "C13": dict(cat="model_checking", engine="enum",
   technique="explicit-state search over (edit one input, rebuild) histories of a generated multi-package module with a private cache per history; model = version vector of the inputs",
   text="World: main -> a -> b with an embedded data file, a build-tag-gated file pair and an LLGoFiles C file with a header. Every history of the listed shapes (thorough: all of length <=2 over 12 events and all of length 3 over 6) is replayed on a fresh world whose cache starts as a hard-linked copy of a warmed template; after each step the program built through the cache must print exactly the versions of its seven inputs, which is what a clean build prints. File times are set explicitly (strictly increasing), so nothing depends on the wall clock. Two clean builds of the same sources must emit identical IR for every package.",
   note="-X overrides and LLGO_* variables are not enumerated. Missing fingerprint inputs (embedded files, LLGoFiles sources, headers) are recorded known findings.", ref="§4 C13"),
 "C19": dict(cat="exploration", engine="tc",
   technique="enumerated conversion/call/lookup cases executed by a llgo-compiled program against CPython 3.11 running the same cases",
   text="Integers of every Go type at their boundary values, special floats, strings and nested lists/tuples are converted through py.List/py.Tuple and the explicit constructors, rendered by Python itself and read back; positional calls of arity 0-6 and all orders of three distinguishable arguments go through two test modules; attributes and modules are looked up by name; a Python call is made from a package init function; the import log must list each module once. The expected text is produced by /usr/bin/python3.11 executing the same calls.",
   note="One program, linked against libpython3.11; import order between different modules is not compared.", ref="§4 C19"),
 "C04": dict(cat="exploration", engine="tc",
   technique="bounded-exhaustive enumeration of functions built from defer sites (position x callee kind) and terminators, differential trace vs go1.24.0",
   text="Every function with one defer site (7 positions x 8 callee kinds x 5 terminators), the 2-site products and every order of the three defer mechanisms (unconditional, conditional bit, loop list) with and without arguments is generated, called in its own goroutine (also through a caller with its own loop defers, with and without recover) and its ordered trace of deferred calls with argument values, recovered values, named result and the way the goroutine ended (return / panic / Goexit) is compared with the reference toolchain on both back ends.",
   note="Three confirmed root causes (defers in range-over-func bodies; loop-defer groups separated by a non-loop defer; result lost after a recovered re-panic) are recorded per case in known/C04_*.txt.", ref="§4 C04"),
}
ALL = ["C%02d" % i for i in range(1, 21)]
m = {
 "version": 1,
 "setup_cmd": "bash /verif/tc/setup.sh",
 "hooks": {"guard": "verif", "enable": "no source hooks are required: llgo is built from /repo's working tree with `-tags llvm14,dev` plus a go-build overlay that adds one init() switching LLVM 14 to opaque pointers; tests are injected with `go test -overlay`; runtime sources are copied at check time into stand-in modules",
           "baseline_off_cmd": json.load(open("/root/.vp/BASELINE.json"))["cmd"], "source_commits": [], "add_only": True},
 "engines": [
  {"name": "tc", "path": "lib/common.py", "serves_properties": [], "kind_free_text": "build-and-compare runner: llgo (from the working tree) vs go1.24.0 on generated batch programs"},
  {"name": "sched", "path": "sched/", "serves_properties": [], "kind_free_text": "controlled scheduler + stateless DFS explorer with iterative preemption bounding over the real runtime sources"},
  {"name": "enum", "path": "checks/", "serves_properties": [], "kind_free_text": "bounded-exhaustive generators / explicit-state search, in-process via go test -overlay"},
 ],
 "checks": [], "not_applicable": [],
 "notes": "See DESIGN.md. known_findings.txt lists recorded findings and fixed defects.",
}
for pid in ALL:
    c = CHECKS.get(pid)
    if not c:
        m["not_applicable"].append({"property_id": pid, "reason": "check not built yet in this session (planned in DESIGN.md §4); not claimed"})
        continue
    m["checks"].append({
      "property_id": pid, "quick_cmd": "./check %s --tier quick" % pid, "thorough_cmd": "./check %s --tier thorough" % pid,
      "evidence_file": "/verif/evidence/%s.json" % pid, "replay_cmd_template": "./check %s --replay {path}" % pid,
      "engine": c["engine"], "level_claimed": {"category": c["cat"], "text": c["text"], "design_ref": c["ref"]},
      "level_note": c["note"], "technique": c["technique"]})
    for e in m["engines"]:
        if e["name"] == c["engine"]:
            e["serves_properties"].append(pid)
json.dump(m, open("MANIFEST.json", "w"), indent=1)
print("claimed:", [c["property_id"] for c in m["checks"]])
