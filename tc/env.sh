# source me: environment for every tool invocation
export VERIF=/verif
export GO124=/root/go/pkg/mod/golang.org/toolchain@v0.0.1-go1.24.0.linux-amd64
export PATH=$GO124/bin:$PATH
export GOTOOLCHAIN=local GOFLAGS=-mod=mod GOPROXY=off GONOSUMDB=* GONOSUMCHECK=1 GOFLAGS=-mod=mod
export GOCACHE=${VERIF_GOCACHE:-${VERIF_BUILD:-/verif/build}/gocache}
