/* LD_PRELOAD seam: libc rand()/srand() made deterministic and enumerable via VERIF_RAND_SEED */
#include <stdlib.h>
#include <stdint.h>
static uint64_t st; static int inited;
static void init(void){ const char*s=getenv("VERIF_RAND_SEED"); st = s? strtoull(s,0,10)*2654435761u+12345 : 88172645463325252ull; inited=1; }
int rand(void){ if(!inited)init(); st ^= st<<13; st ^= st>>7; st ^= st<<17; return (int)((st>>11)&0x7fffffff); }
void srand(unsigned s){ (void)s; }
long random(void){ return rand(); }
void srandom(unsigned s){ (void)s; }
