package main

// Overlay file (never part of /repo): llgo has no command-line spelling for "-X importpath.name=value" string overrides in this version; they
// reach the compiler only through build.Config.GlobalRewrites. With VERIF_X="pkg.name=value;pkg2.name=value" in the environment, `llgo build`
// runs exactly what cmd/internal/build.runCmd runs, plus those rewrites (so C13 can make them part of its edit alphabet).

import (
	"fmt"
	"os"
	"strings"

	"github.com/goplus/llgo/cmd/internal/base"
	cbuild "github.com/goplus/llgo/cmd/internal/build"
	"github.com/goplus/llgo/cmd/internal/flags"
	"github.com/goplus/llgo/internal/build"
)

func init() {
	spec := os.Getenv("VERIF_X")
	if spec == "" {
		return
	}
	cbuild.Cmd.Run = func(cmd *base.Command, args []string) {
		if err := cmd.Flag.Parse(args); err != nil {
			return
		}
		conf := build.NewDefaultConf(build.ModeBuild)
		if err := flags.UpdateBuildConfig(conf); err != nil {
			fmt.Fprintln(os.Stderr, err)
			os.Exit(1)
		}
		conf.GlobalRewrites = make(map[string]build.Rewrites)
		for _, kv := range strings.Split(spec, ";") {
			eq := strings.Index(kv, "=")
			dot := strings.LastIndex(kv[:eq], ".")
			pkg, name, val := kv[:dot], kv[dot+1:eq], kv[eq+1:]
			if conf.GlobalRewrites[pkg] == nil {
				conf.GlobalRewrites[pkg] = make(build.Rewrites)
			}
			conf.GlobalRewrites[pkg][name] = val
		}
		if _, err := build.Do(cmd.Flag.Args(), conf); err != nil {
			fmt.Fprintln(os.Stderr, err)
			os.Exit(1)
		}
	}
}
