/* no-op libunwind stand-in: only stack printing is lost */
#include "libunwind.h"
int unw_getcontext(unw_context_t *c){ (void)c; return 0; }
int unw_init_local(unw_cursor_t *cur, unw_context_t *c){ (void)cur;(void)c; return 0; }
int unw_step(unw_cursor_t *cur){ (void)cur; return 0; }
int unw_get_reg(unw_cursor_t *cur, int r, unw_word_t *v){ (void)cur;(void)r; if(v)*v=0; return 0; }
int unw_get_proc_name(unw_cursor_t *cur, char *b, size_t n, unw_word_t *off){ (void)cur; if(n)b[0]=0; if(off)*off=0; return -1; }
