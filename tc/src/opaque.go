package ssa

import "github.com/xgo-dev/llvm"

func init() {
	llvm.ParseCommandLineOptions([]string{"llgo", "-opaque-pointers"}, "")
}
