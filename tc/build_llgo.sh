#!/bin/bash
# (Re)build llgo from /repo's current working tree. Output: /verif/build/llgo/<treehash>/llgo ; prints the path.
set -e
. /verif/tc/env.sh
B=${VERIF_BUILD:-/verif/build}
R=${VERIF_REPO:-/repo}
mkdir -p $B/llgo
# hash of compiler-relevant sources in the working tree (content, not mtimes)
H=$(cd $R && (git ls-files -co --exclude-standard -- cmd cl ssa internal xtool go.mod go.sum runtime targets 2>/dev/null | LC_ALL=C sort | xargs -d '\n' sha256sum 2>/dev/null; cat /verif/tc/src/opaque.go /verif/tc/src/xrewrite.go) | sha256sum | cut -c1-16)
OUT=$B/llgo/$H/llgo
if [ ! -x $OUT ]; then
  (
    flock 9
    if [ ! -x $OUT ]; then
      mkdir -p $B/llgo/$H
      cat > $B/llgo/$H/ov.json <<EOF
{"Replace": {"$R/ssa/zz_verif_opaque.go": "/verif/tc/src/opaque.go", "$R/cmd/llgo/zz_verif_xrewrite.go": "/verif/tc/src/xrewrite.go"}}
EOF
      (cd $R && go build -tags llvm14,dev -overlay $B/llgo/$H/ov.json -o $OUT.tmp ./cmd/llgo) >&2
      mv $OUT.tmp $OUT
      # keep only the 4 most recent builds
      ls -dt $B/llgo/*/ | tail -n +5 | xargs -r rm -rf
    fi
  ) 9>$B/llgo/.lock
fi
echo $OUT
