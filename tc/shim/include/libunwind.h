#ifndef VERIF_LIBUNWIND_H
#define VERIF_LIBUNWIND_H
#include <stddef.h>
#include <stdint.h>
typedef uint64_t unw_word_t;
typedef struct { uint64_t d[128]; } unw_context_t;
typedef struct { uint64_t d[140]; } unw_cursor_t;
#define UNW_REG_IP (-1)
#define UNW_REG_SP (-2)
int unw_getcontext(unw_context_t *);
int unw_init_local(unw_cursor_t *, unw_context_t *);
int unw_step(unw_cursor_t *);
int unw_get_reg(unw_cursor_t *, int, unw_word_t *);
int unw_get_proc_name(unw_cursor_t *, char *, size_t, unw_word_t *);
#endif
