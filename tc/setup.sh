#!/bin/bash
# Build the executable tool-chain under /verif/build from files on disk only.
set -e
. /verif/tc/env.sh
B=/verif/build
mkdir -p $B/shimlib $B/gocache /verif/evidence
S=/verif/tc/shim
mkdir -p $S/lib
ln -sfn /usr/lib/x86_64-linux-gnu/libgc.so.1 $S/lib/libgc.so
ln -sfn /opt/veriftools/lean-4.33.0-linux/lib/libuv.a $S/lib/libuv.a
gcc -O1 -c -I$S/include -o $B/shimlib/unwind_stub.o /verif/tc/src/unwind_stub.c
rm -f $S/lib/libunwind.a; ar rcs $S/lib/libunwind.a $B/shimlib/unwind_stub.o
gcc -O1 -shared -fPIC -o $S/lib/librandseam.so /verif/tc/src/randseam.c
/verif/tc/build_llgo.sh
