// Package vsyscall stands in for package syscall in the scheduled copy of fetch.go: flock(2) is modelled by one scheduler mutex per
// inode, owned by an open file description; everything else is the real system call.
package vsyscall

import (
	"syscall"

	"github.com/goplus/llgo/runtime/vos"
	"github.com/goplus/llgo/runtime/vs"
)

const (
	LOCK_SH = syscall.LOCK_SH
	LOCK_EX = syscall.LOCK_EX
	LOCK_NB = syscall.LOCK_NB
	LOCK_UN = syscall.LOCK_UN

	EWOULDBLOCK = syscall.EWOULDBLOCK
	EAGAIN      = syscall.EAGAIN
	EEXIST      = syscall.EEXIST
	ENOENT      = syscall.ENOENT
	EINTR       = syscall.EINTR
)

type Errno = syscall.Errno
type Stat_t = syscall.Stat_t

type inodeLock struct {
	mu    vs.Mutex
	owner int // descriptor holding it (-1: none)
}

var (
	locks  map[uint64]*inodeLock
	byFd   map[int]*inodeLock
	Flocks int
)

// Reset forgets all locks (start of an execution).
func Reset() {
	locks = map[uint64]*inodeLock{}
	byFd = map[int]*inodeLock{}
	vos.OnClose = func(fd int) { unlock(fd) }
}

func unlock(fd int) {
	if l := byFd[fd]; l != nil {
		delete(byFd, fd)
		l.owner = -1
		l.mu.Unlock()
	}
}

func Flock(fd int, how int) error {
	var st syscall.Stat_t
	if err := syscall.Fstat(fd, &st); err != nil {
		return err
	}
	if how&LOCK_UN != 0 {
		vs.PointNote("flock un fd=%d ino=%d", fd, st.Ino)
		unlock(fd)
		return nil
	}
	if how&LOCK_SH != 0 {
		panic("vsyscall: shared flock is not modelled")
	}
	l := locks[st.Ino]
	if l == nil {
		l = &inodeLock{owner: -1}
		locks[st.Ino] = l
	}
	if l.owner == fd {
		return nil // converting a lock already held by this description
	}
	Flocks++
	if how&LOCK_NB != 0 {
		vs.PointNote("flock ex|nb fd=%d ino=%d", fd, st.Ino)
		if !l.mu.TryLock() {
			return syscall.EWOULDBLOCK
		}
	} else {
		vs.S.Note("flock ex fd=%d ino=%d ...", fd, st.Ino)
		l.mu.Lock()
	}
	l.owner = fd
	byFd[fd] = l
	return nil
}

func Fstat(fd int, st *Stat_t) error { return syscall.Fstat(fd, st) }
func Getpid() int                    { return 1000 + vs.S.Cur().ID }

// POSIX record locks (fcntl F_SETLK/F_SETLKW) belong to the *process*, not to the open file description: requests that are threads of one
// process never conflict with each other, whatever descriptors they use (and the harness runs one process). The call is a scheduling point and
// always succeeds at once; F_GETLK reports the range as unlocked.
const (
	F_RDLCK  = syscall.F_RDLCK
	F_WRLCK  = syscall.F_WRLCK
	F_UNLCK  = syscall.F_UNLCK
	F_GETLK  = syscall.F_GETLK
	F_SETLK  = syscall.F_SETLK
	F_SETLKW = syscall.F_SETLKW
)

type Flock_t = syscall.Flock_t

var RecordLocks int

func FcntlFlock(fd uintptr, cmd int, lk *Flock_t) error {
	var st syscall.Stat_t
	if err := syscall.Fstat(int(fd), &st); err != nil {
		return err
	}
	RecordLocks++
	vs.PointNote("fcntl record lock cmd=%d type=%d fd=%d ino=%d (process-owned: no conflict between threads)", cmd, lk.Type, fd, st.Ino)
	if cmd == F_GETLK {
		lk.Type = F_UNLCK
	}
	return nil
}
