module github.com/goplus/llgo/runtime

go 1.24

require github.com/anishathalye/porcupine v1.3.0
