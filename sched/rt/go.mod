module github.com/goplus/llgo/runtime

go 1.24
