// explore: bounded-exhaustive exploration of the real channel / semaphore code under the controlled scheduler.
package main

import (
	"encoding/json"
	"flag"
	"fmt"
	"os"
	"sort"
	"strings"
	"time"

	semart "github.com/goplus/llgo/runtime/internal/lib/runtime"
	vatomic "github.com/goplus/llgo/runtime/internal/lib/sync/atomic"
	rt "github.com/goplus/llgo/runtime/internal/runtime"
	"github.com/goplus/llgo/runtime/syncx"
	"github.com/goplus/llgo/runtime/vs"
)

type Violation struct {
	Key      string  `json:"key"`
	What     string  `json:"what"`
	Scenario any     `json:"scenario"`
	Choices  []uint8 `json:"choices"`
	Mode     string  `json:"mode"`
}

type Result struct {
	Mode        string         `json:"mode"`
	Family      string         `json:"family"`
	Scenarios   int            `json:"scenarios"`
	Execs       int64          `json:"execs"`
	Points      int64          `json:"points"`
	Deadlocks   int64          `json:"deadlock_terminals"`
	Horizons    int64          `json:"horizon_hits"`
	Outcomes    int64          `json:"distinct_outcomes_total"`
	MultiOut    int            `json:"scenarios_with_several_outcomes"`
	RefOutcomes int64          `json:"reference_outcomes_total"`
	Capped      int            `json:"scenarios_capped"`
	TimedOut    bool           `json:"timed_out"`
	Violations  []Violation    `json:"violations"`
	Samples     []string       `json:"samples"`
	Bounds      map[string]int `json:"bounds"`
	MaxDepth    int            `json:"max_choice_depth"`
}

// ---------------------------------------------------------------- channel scenario families

func plainOps(nch int, try bool) []rt.COp {
	var ops []rt.COp
	for c := 0; c < nch; c++ {
		ops = append(ops, rt.COp{K: 's', C: c}, rt.COp{K: 'r', C: c}, rt.COp{K: 'c', C: c})
		if try {
			ops = append(ops, rt.COp{K: 'S', C: c}, rt.COp{K: 'R', C: c})
		}
	}
	return ops
}

func selectOps(nch int) []rt.COp {
	var cases []rt.SelCase
	for c := 0; c < nch; c++ {
		cases = append(cases, rt.SelCase{Send: true, C: c}, rt.SelCase{Send: false, C: c})
	}
	var ops []rt.COp
	for _, k := range []byte{'L', 'T'} {
		for i, a := range cases {
			for j, b := range cases {
				if i != j {
					ops = append(ops, rt.COp{K: k, Cases: []rt.SelCase{a, b}})
				}
			}
		}
	}
	return ops
}

func progs(alpha []rt.COp, maxOps int) [][]rt.COp {
	var res [][]rt.COp
	var rec func(cur []rt.COp)
	rec = func(cur []rt.COp) {
		if len(cur) > 0 {
			res = append(res, append([]rt.COp{}, cur...))
		}
		if len(cur) == maxOps {
			return
		}
		for _, o := range alpha {
			rec(append(cur, o))
		}
	}
	rec(nil)
	return res
}

func isSel(o rt.COp) bool { return o.K == 'L' || o.K == 'T' }

// valid: at most one close per channel; no close on a channel that a select-send / try-send uses (Go panics
// there, llgo does not: that is property C03's subject, not C10's); every channel touched by >= 2 threads.
func valid(sc rt.Scenario) bool {
	nch := len(sc.Caps)
	closes := make([]int, nch)
	selSend := make([]bool, nch)
	users := make([]map[int]bool, nch)
	for i := range users {
		users[i] = map[int]bool{}
	}
	for t, p := range sc.Threads {
		for _, o := range p {
			switch o.K {
			case 'c':
				closes[o.C]++
				users[o.C][t] = true
			case 'S':
				selSend[o.C] = true
				users[o.C][t] = true
			case 'L', 'T':
				for _, cs := range o.Cases {
					if cs.Send {
						selSend[cs.C] = true
					}
					users[cs.C][t] = true
				}
			default:
				users[o.C][t] = true
			}
		}
	}
	for c := 0; c < nch; c++ {
		if closes[c] > 1 || (closes[c] > 0 && selSend[c]) || len(users[c]) < 2 {
			return false
		}
	}
	return true
}

func capsList(nch int, caps []int) [][]int {
	res := [][]int{{}}
	for i := 0; i < nch; i++ {
		var nr [][]int
		for _, r := range res {
			for _, c := range caps {
				nr = append(nr, append(append([]int{}, r...), c))
			}
		}
		res = nr
	}
	return res
}

func progKey(p []rt.COp) string {
	var s []string
	for _, o := range p {
		s = append(s, o.String())
	}
	return strings.Join(s, ",")
}

func chanFamily(name string) []rt.Scenario {
	var scs []rt.Scenario
	multisets := func(ps [][]rt.COp, k int, emit func(th [][]rt.COp)) {
		var rec func(start int, cur [][]rt.COp)
		rec = func(start int, cur [][]rt.COp) {
			if len(cur) == k {
				emit(append([][]rt.COp{}, cur...))
				return
			}
			for i := start; i < len(ps); i++ {
				rec(i, append(cur, ps[i]))
			}
		}
		rec(0, nil)
	}
	add := func(nch int, caps []int, th [][]rt.COp) {
		for _, cp := range capsList(nch, caps) {
			sc := rt.Scenario{Caps: cp, Threads: th}
			if valid(sc) {
				scs = append(scs, sc)
			}
		}
	}
	switch name {
	case "c1t2": // 1 channel, 2 threads, <=3 ops, plain + try ops
		multisets(progs(plainOps(1, true), 3), 2, func(th [][]rt.COp) { add(1, []int{0, 1, 2}, th) })
	case "c1t3": // 1 channel, 3 threads, <=2 ops
		multisets(progs(plainOps(1, true), 2), 3, func(th [][]rt.COp) { add(1, []int{0, 1, 2}, th) })
	case "c1t3x": // thorough: 1 channel, 3 threads, <=3 ops (plain only)
		multisets(progs(plainOps(1, false), 3), 3, func(th [][]rt.COp) { add(1, []int{0, 1, 2}, th) })
	case "c2sel", "c2selx": // 2 channels; thread A has exactly one select (alone, before or after a plain op); B plain <=2 ops or one select
		plain := plainOps(2, false)
		sel := selectOps(2)
		var as [][]rt.COp
		for _, s := range sel {
			as = append(as, []rt.COp{s})
			for _, p := range plain {
				as = append(as, []rt.COp{s, p}, []rt.COp{p, s})
			}
		}
		bs := progs(plain, 2)
		for _, s := range sel {
			bs = append(bs, []rt.COp{s})
		}
		caps := []int{0, 1}
		for _, a := range as {
			for _, b := range bs {
				if isSel(b[0]) && len(a) == 1 && progKey(b) < progKey(a) {
					continue // unordered pair of single selects
				}
				add(2, caps, [][]rt.COp{a, b})
			}
		}
		if name == "c2selx" { // thorough: a third plain one-op thread
			var more []rt.Scenario
			for _, sc := range scs {
				for _, p := range plain {
					n := rt.Scenario{Caps: sc.Caps, Threads: append(append([][]rt.COp{}, sc.Threads...), []rt.COp{p})}
					if valid(n) {
						more = append(more, n)
					}
				}
			}
			scs = more
		}
	case "c1sel": // 1 channel, selects mixing send and receive on it, 2-3 threads
		alpha := append(plainOps(1, false), selectOps(1)...)
		multisets(progs(alpha, 2), 2, func(th [][]rt.COp) { add(1, []int{0, 1}, th) })
		multisets(progs(alpha, 1), 3, func(th [][]rt.COp) { add(1, []int{0, 1}, th) })
	default:
		fmt.Fprintln(os.Stderr, "unknown family", name)
		os.Exit(2)
	}
	return scs
}

func runChan(family string, shard, nshards int, b vs.Bounds, deadline time.Time, res *Result) {
	scs := chanFamily(family)
	for i, sc := range scs {
		if i%nshards != shard {
			continue
		}
		if time.Now().After(deadline) {
			res.TimedOut = true
			break
		}
		ref := rt.RefOutcomes(sc)
		seen := map[string]bool{}
		type badT struct {
			what    string
			choices []uint8
		}
		bads := map[string]badT{} // every distinct disallowed outcome / failure of this scenario, with one witness schedule
		st, _ := vs.Explore(b, func(s *vs.Sched) bool {
			out := rt.RunImpl(sc, s)
			key, what := "", ""
			switch {
			case s.Failure != "":
				key, what = "FAIL "+s.Failure, "failure: "+s.Failure
			case s.Horizon:
				key, what = "HORIZON", "no progress within the horizon (livelock or unbounded retry)"
			default:
				seen[out] = true
				if !ref[out] {
					key, what = out, fmt.Sprintf("outcome [%s] is not an outcome Go's channel semantics allows; allowed: %v", out, rt.SortedKeys(ref))
				}
			}
			if key != "" {
				if _, dup := bads[key]; !dup {
					ch := make([]uint8, len(s.Trace))
					for i, c := range s.Trace {
						ch[i] = c.Picked
					}
					bads[key] = badT{what, ch}
				}
				return len(bads) < 40
			}
			return true
		})
		res.Scenarios++
		res.Execs += st.Execs
		res.Points += st.Points
		res.Deadlocks += st.Deadlocks
		res.Horizons += st.Horizons
		res.Outcomes += int64(len(seen))
		res.RefOutcomes += int64(len(ref))
		if st.MaxDepth > res.MaxDepth {
			res.MaxDepth = st.MaxDepth
		}
		if len(seen) > 1 {
			res.MultiOut++
		}
		if st.Capped {
			res.Capped++
		}
		for k, bd := range bads {
			res.Violations = append(res.Violations, Violation{Key: "chan:" + sc.String() + " => " + k, What: bd.what + " :: scenario " + sc.String(), Scenario: sc, Choices: bd.choices, Mode: "chan"})
		}
		if len(res.Samples) < 3 && len(seen) > 1 {
			res.Samples = append(res.Samples, fmt.Sprintf("%s -> %d schedules, outcomes %v", sc.String(), st.Execs, rt.SortedKeys(seen)))
		}
	}
}

func main() {
	mode := flag.String("mode", "chan", "chan | sema | notify | replay")
	family := flag.String("family", "c1t2", "scenario family")
	shard := flag.Int("shard", 0, "")
	nshards := flag.Int("nshards", 1, "")
	pre := flag.Int("preempt", 2, "preemption bound")
	spur := flag.Int("spurious", 1, "spurious wake-up bound")
	maxExecs := flag.Int64("maxexecs", 0, "per-scenario execution cap (0 = none)")
	budget := flag.Int("budget", 0, "wall-clock budget in seconds for this shard (0 = none)")
	envb := flag.Int("env", 1, "environment-answer bound (sync mode: clock readings that cross the starvation threshold)")
	out := flag.String("out", "", "result JSON")
	replay := flag.String("replay", "", "violation JSON to replay")
	flag.Parse()
	res := &Result{Mode: *mode, Family: *family, Bounds: map[string]int{"preemptions": *pre, "spurious_wakeups": *spur}}
	if *mode == "sync" {
		res.Bounds["env_deviations"] = *envb
	}
	deadline := time.Now().Add(365 * 24 * time.Hour)
	if *budget > 0 {
		deadline = time.Now().Add(time.Duration(*budget) * time.Second)
	}
	b := vs.Bounds{Preempt: *pre, Spurious: *spur, MaxExecs: *maxExecs}
	switch *mode {
	case "chan":
		runChan(*family, *shard, *nshards, b, deadline, res)
	case "sema", "notify":
		semart.RunFamily(*mode, *family, *shard, *nshards, b, deadline, func(scen int, execs, points, dead, horiz int64, nout int, capped bool, depth int, sample string, v *semart.Viol) {
			res.Scenarios += scen
			res.Execs += execs
			res.Points += points
			res.Deadlocks += dead
			res.Horizons += horiz
			res.Outcomes += int64(nout)
			if nout > 1 {
				res.MultiOut++
			}
			if capped {
				res.Capped++
			}
			if depth > res.MaxDepth {
				res.MaxDepth = depth
			}
			if sample != "" && len(res.Samples) < 3 {
				res.Samples = append(res.Samples, sample)
			}
			if v != nil && len(res.Violations) < 50 {
				res.Violations = append(res.Violations, Violation{Key: v.Key, What: v.What, Scenario: v.Scenario, Choices: v.Choices, Mode: *mode})
			}
		}, func() { res.TimedOut = true })
	case "sync":
		b.Env = *envb
		syncx.RunFamily(*family, *shard, *nshards, b, deadline, func(scen int, execs, points, dead, horiz int64, nout int, capped bool, depth int, sample string, v *syncx.Viol) {
			res.Scenarios += scen
			res.Execs += execs
			res.Points += points
			res.Deadlocks += dead
			res.Horizons += horiz
			res.Outcomes += int64(nout)
			if nout > 1 {
				res.MultiOut++
			}
			if capped {
				res.Capped++
			}
			if depth > res.MaxDepth {
				res.MaxDepth = depth
			}
			if sample != "" && len(res.Samples) < 3 {
				res.Samples = append(res.Samples, sample)
			}
			if v != nil && len(res.Violations) < 50 {
				res.Violations = append(res.Violations, Violation{Key: v.Key, What: v.What, Scenario: v.Scenario, Choices: v.Choices, Mode: *mode})
			}
		}, func() { res.TimedOut = true })
	case "value":
		vatomic.RunValueFamily(*family, *shard, *nshards, b, deadline, func(scen int, execs, points, dead, horiz int64, nout int, capped bool, depth int, sample string, v *vatomic.VViol) {
			res.Scenarios += scen
			res.Execs += execs
			res.Points += points
			res.Deadlocks += dead
			res.Horizons += horiz
			res.Outcomes += int64(nout)
			if nout > 1 {
				res.MultiOut++
			}
			if capped {
				res.Capped++
			}
			if depth > res.MaxDepth {
				res.MaxDepth = depth
			}
			if sample != "" && len(res.Samples) < 3 {
				res.Samples = append(res.Samples, sample)
			}
			if v != nil && len(res.Violations) < 50 {
				res.Violations = append(res.Violations, Violation{Key: v.Key, What: v.What, Scenario: v.Scenario, Choices: v.Choices, Mode: *mode})
			}
		}, func() { res.TimedOut = true })
		res.RefOutcomes = vatomic.LinDistinct
	case "replay":
		data, err := os.ReadFile(*replay)
		if err != nil {
			panic(err)
		}
		var rf struct {
			Replay Violation `json:"replay"`
		}
		if err := json.Unmarshal(data, &rf); err != nil {
			panic(err)
		}
		v := rf.Replay
		sj, _ := json.Marshal(v.Scenario)
		fmt.Println("replaying", v.Key, "choices", v.Choices)
		var outs []string
		for i := 0; i < 2; i++ {
			switch v.Mode {
			case "chan":
				var sc rt.Scenario
				json.Unmarshal(sj, &sc)
				s := vs.New(v.Choices, *spur)
				s.Verbose = i == 1
				o := rt.RunImpl(sc, s)
				if i == 1 {
					fmt.Println(strings.Join(s.Log, "\n"))
				}
				ref := rt.RefOutcomes(sc)
				outs = append(outs, fmt.Sprintf("outcome [%s] failure=%q horizon=%v allowed=%v", o, s.Failure, s.Horizon, ref[o]))
				if i == 1 {
					fmt.Println(outs[1])
					fmt.Println("allowed outcomes:", rt.SortedKeys(ref))
				}
			case "value":
				outs = append(outs, vatomic.ReplayValue(sj, v.Choices, *spur, i == 1))
				if i == 1 {
					fmt.Println(outs[1])
				}
			case "sync":
				outs = append(outs, syncx.Replay(sj, v.Choices, *spur, i == 1))
				if i == 1 {
					fmt.Println(outs[1])
				}
			default:
				outs = append(outs, semart.Replay(v.Mode, sj, v.Choices, *spur, i == 1))
				if i == 1 {
					fmt.Println(outs[1])
				}
			}
		}
		if outs[0] != outs[1] {
			fmt.Println("HARNESS ERROR: replay not deterministic")
			os.Exit(3)
		}
		return
	}
	sort.Slice(res.Violations, func(i, j int) bool { return res.Violations[i].Key < res.Violations[j].Key })
	bs, _ := json.Marshal(res)
	if *out != "" {
		os.WriteFile(*out, bs, 0o644)
	} else {
		fmt.Println(string(bs))
	}
}
