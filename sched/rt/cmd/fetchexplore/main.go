// fetchexplore: bounded-exhaustive exploration of concurrent download-and-extract requests (the real fetch.go, file system real,
// scheduling, flock and the network owned by the explorer).
package main

import (
	"encoding/json"
	"flag"
	"fmt"
	"os"
	"path/filepath"
	"sort"
	"strings"
	"time"

	"github.com/goplus/llgo/runtime/fetchx"
	"github.com/goplus/llgo/runtime/vs"
)

type Violation struct {
	Key      string          `json:"key"`
	What     string          `json:"what"`
	Scenario fetchx.Scenario `json:"scenario"`
	Choices  []uint8         `json:"choices"`
	Bounds   map[string]int  `json:"bounds"`
}

type Result struct {
	Scenario   fetchx.Scenario  `json:"scenario"`
	Bounds     map[string]int   `json:"bounds"`
	Execs      int64            `json:"execs"`
	Points     int64            `json:"points"`
	MaxDepth   int              `json:"max_choice_depth"`
	Outcomes   map[string]int64 `json:"outcomes"`
	Capped     bool             `json:"capped"`
	Undecided  int64            `json:"undecided_polling_horizons"`
	TimedOut   bool             `json:"timed_out"`
	Violations []Violation      `json:"violations"`
	Wall       float64          `json:"wall_s"`
}

var scratch string
var counter int

func runOne(sc fetchx.Scenario, prefix []uint8, verbose bool) (fetchx.Outcome, *vs.Sched) {
	s := vs.New(prefix, 0)
	s.Verbose = verbose
	counter++
	root := filepath.Join(scratch, fmt.Sprintf("x%d", counter))
	os.RemoveAll(root)
	os.MkdirAll(root, 0755)
	o := fetchx.Run(s, sc, root)
	o.Failure = strings.ReplaceAll(o.Failure, root, "$ROOT")
	os.RemoveAll(root)
	return o, s
}

func describe(o fetchx.Outcome) string {
	st := "returns=" + strings.Join(o.Errs, ",") + " final=" + o.Final + fmt.Sprintf(" downloads=%d", o.Gets)
	if len(o.Leftover) > 0 {
		st += " leftover=" + strings.Join(o.Leftover, ",")
	}
	return st
}

func verdict(o fetchx.Outcome) string {
	switch {
	case o.Failure != "":
		return o.Failure
	case o.Deadlock:
		return "deadlock: requests " + strings.Join(o.Errs, ",")
	case o.Horizon:
		return "no termination within the horizon (livelock)"
	}
	return ""
}

func main() {
	n := flag.Int("n", 2, "concurrent requests")
	sub := flag.String("sub", "", "internalArchiveSrcDir")
	entry := flag.String("entry", "lib", "lib | wasi | esp")
	faults := flag.Bool("faults", false, "download failures on the menu")
	jumps := flag.Bool("jumps", false, "clock jumps on the menu")
	small := flag.Bool("small", false, "two-file archive")
	kinds := flag.Int("faultkinds", 0, "number of failure kinds on the menu (0 = all three)")
	pre := flag.Int("preempt", 2, "preemption bound")
	env := flag.Int("env", 1, "environment deviation bound")
	shard := flag.Int("shard", 0, "")
	nshards := flag.Int("nshards", 1, "")
	budget := flag.Int("budget", 0, "wall-clock budget in seconds (0 = none)")
	maxExecs := flag.Int64("maxexecs", 0, "")
	out := flag.String("out", "", "result JSON")
	replay := flag.String("replay", "", "violation JSON to replay")
	flag.StringVar(&scratch, "scratch", "/dev/shm", "scratch root")
	flag.Parse()
	scratch = filepath.Join(scratch, fmt.Sprintf("verif-c20-%d", os.Getpid()))
	os.MkdirAll(scratch, 0755)
	os.Setenv("VERIF_SCRATCH", scratch)
	defer os.RemoveAll(scratch)

	if *replay != "" {
		var v Violation
		data, err := os.ReadFile(*replay)
		if err != nil {
			panic(err)
		}
		if err := json.Unmarshal(data, &v); err != nil {
			panic(err)
		}
		o1, s1 := runOne(v.Scenario, v.Choices, true)
		o2, _ := runOne(v.Scenario, v.Choices, true)
		fmt.Printf("scenario %s\n", v.Scenario)
		for _, l := range s1.Log {
			fmt.Println("  " + strings.ReplaceAll(l, scratch, "$S"))
		}
		fmt.Printf("first run : %s | %s\nsecond run: %s | %s\n", verdict(o1), describe(o1), verdict(o2), describe(o2))
		if verdict(o1) != verdict(o2) {
			fmt.Println("REPLAY NOT DETERMINISTIC")
			os.RemoveAll(scratch)
			os.Exit(3)
		}
		if verdict(o1) != "" {
			os.RemoveAll(scratch)
			os.Exit(1)
		}
		return
	}

	sc := fetchx.Scenario{N: *n, Sub: *sub, Faults: *faults, Jumps: *jumps, Fn: *entry, Small: *small, Kinds: *kinds}
	bounds := map[string]int{"preemptions": *pre, "env_deviations": *env, "threads": *n}
	res := Result{Scenario: sc, Bounds: bounds, Outcomes: map[string]int64{}}
	start := time.Now()
	seen := map[string]bool{}
	b := vs.Bounds{Preempt: *pre, Env: *env, MaxExecs: *maxExecs, Shard: *shard, NShards: *nshards}
	var st vs.Stats
	// vs.Explore constructs the Sched itself: body receives it
	st, _ = vs.Explore(b, func(s *vs.Sched) bool {
		counter++
		root := filepath.Join(scratch, fmt.Sprintf("x%d", counter))
		os.MkdirAll(root, 0755)
		o := fetchx.Run(s, sc, root)
		o.Failure = strings.ReplaceAll(o.Failure, root, "$ROOT")
		os.RemoveAll(root)
		if v := verdict(o); v != "" {
			key := "fetch:" + sc.String() + " => " + v
			if !seen[key] && len(res.Violations) < 12 {
				seen[key] = true
				ch := make([]uint8, len(s.Trace))
				for i, c := range s.Trace {
					ch[i] = c.Picked
				}
				res.Violations = append(res.Violations, Violation{Key: key, What: v + " | " + describe(o), Scenario: sc, Choices: ch, Bounds: bounds})
			}
			res.Outcomes["VIOLATION "+v]++
		} else if o.Polling {
			res.Undecided++
			res.Outcomes["UNDECIDED horizon reached while polling (sleep-and-retry code; bounded exploration cannot tell a long wait from a livelock)"]++
		} else {
			res.Outcomes[describe(o)]++
		}
		if *budget > 0 && time.Since(start) > time.Duration(*budget)*time.Second {
			res.TimedOut = true
			return false
		}
		return true
	})
	res.Execs, res.Points, res.MaxDepth, res.Capped = st.Execs, st.Points, st.MaxDepth, st.Capped
	res.Wall = time.Since(start).Seconds()
	sort.Slice(res.Violations, func(i, j int) bool { return res.Violations[i].Key < res.Violations[j].Key })
	data, _ := json.MarshalIndent(res, "", " ")
	if *out != "" {
		os.WriteFile(*out, data, 0644)
	} else {
		fmt.Println(string(data))
	}
}
