// Package vs is the controlled scheduler and stateless explorer (engine E2).
//
// Threads are goroutines gated one at a time. The code under test reaches the scheduler only through the
// stand-ins for the primitives it really uses (pthread mutex/cond/once, atomics). Every scheduling decision
// and every environment decision (which waiter a Signal wakes, whether a Wait returns spuriously) is a
// recorded choice; Explore enumerates all choice sequences depth-first under deviation bounds.
package vs

import (
	"fmt"
	"sync"
)

const (
	KThread   = 0 // which thread runs next
	KSignal   = 1 // which waiter a Signal wakes
	KSpurious = 2 // whether this Wait wakes up spuriously
	KEnv      = 3 // other environment answer (costs one "env" deviation when != 0)
)

type ChoicePoint struct {
	Kind           uint8
	N              uint8
	Picked         uint8
	RunningEnabled bool // KThread: the running thread could have continued (alt != 0 is a preemption)
}

const (
	stRunnable = iota
	stLock
	stCond
	stDone
	stPred // blocked until pred() holds (harness-level wait, modelled as blocking instead of spinning)
)

type Thread struct {
	ID       int
	wake     chan struct{}
	state    int
	waitM    *Mutex
	yielding bool
	pred     func() bool
	Op       string // label of the harness-level operation in flight (diagnostics)
}

type abortT struct{}

type Sched struct {
	threads  []*Thread
	cur      *Thread
	prefix   []uint8
	Trace    []ChoicePoint
	MaxPts   int
	Points   int
	OnPoint  func() // invariant hook, evaluated at every scheduling point
	Deadlock bool   // terminal state with blocked threads
	Horizon  bool   // MaxPts exceeded
	Failure  string // set by harness/invariant
	done     chan struct{}
	aborting bool
	wg       sync.WaitGroup
	SpurLeft int
	finished bool
	Verbose  bool
	Log      []string
}

// Note records a line in the replay log (only when Verbose).
func (s *Sched) Note(format string, args ...any) {
	if s.Verbose {
		id := -1
		if s.cur != nil {
			id = s.cur.ID
		}
		s.Log = append(s.Log, fmt.Sprintf("T%d ", id)+fmt.Sprintf(format, args...))
	}
}

// S is the scheduler of the execution in progress (one at a time per process).
var S *Sched

func New(prefix []uint8, spurious int) *Sched {
	s := &Sched{prefix: prefix, MaxPts: 3000, done: make(chan struct{}, 1), SpurLeft: spurious}
	S = s
	return s
}

func (s *Sched) Fail(format string, args ...any) {
	if s.Failure == "" {
		s.Failure = fmt.Sprintf(format, args...)
	}
}

func (s *Sched) Cur() *Thread { return s.cur }

func (s *Sched) Go(fn func()) *Thread {
	t := &Thread{ID: len(s.threads), wake: make(chan struct{}, 1)}
	s.threads = append(s.threads, t)
	s.wg.Add(1)
	go func() {
		defer s.wg.Done()
		defer func() {
			if r := recover(); r != nil {
				if _, ok := r.(abortT); !ok {
					s.Fail("thread %d panicked: %v", t.ID, r)
					// a genuine panic in the code under test: end the execution
					t.state = stDone
					s.finish()
				}
			}
		}()
		<-t.wake
		if s.aborting {
			panic(abortT{})
		}
		fn()
		t.state = stDone
		s.yield()
	}()
	return t
}

func (s *Sched) choose(kind uint8, n int, runningEnabled bool) int {
	pos := len(s.Trace)
	pick := 0
	if pos < len(s.prefix) {
		pick = int(s.prefix[pos])
		if pick >= n {
			panic(fmt.Sprintf("vs: replay divergence at choice %d: alternative %d of %d (kind %d)", pos, pick, n, kind))
		}
	}
	s.Trace = append(s.Trace, ChoicePoint{Kind: kind, N: uint8(n), Picked: uint8(pick), RunningEnabled: runningEnabled})
	return pick
}

// Choose is an environment decision with n alternatives (alternative 0 is the default answer).
func (s *Sched) Choose(kind uint8, n int) int {
	if n <= 1 {
		return 0
	}
	return s.choose(kind, n, false)
}

func (t *Thread) enabled() bool {
	switch t.state {
	case stRunnable:
		return true
	case stLock:
		return !t.waitM.held
	case stPred:
		return t.pred()
	}
	return false
}

func (s *Sched) finish() {
	if !s.finished {
		s.finished = true
		s.done <- struct{}{}
	}
}

// park blocks a thread of a finished execution until teardown aborts it (a thread that is already done just ends).
func (s *Sched) park(me *Thread) {
	if me == nil {
		return
	}
	if me.state == stDone {
		panic(abortT{})
	}
	<-me.wake
	panic(abortT{})
}

// yield is a scheduling point: the current thread has declared its pending operation in its state.
func (s *Sched) yield() {
	me := s.cur
	if s.aborting {
		// a deferred function of a thread that is being torn down reached a scheduling point
		panic(abortT{})
	}
	if s.finished {
		// execution already over (failure): park until aborted
		s.park(me)
	}
	s.Points++
	if s.OnPoint != nil {
		s.OnPoint()
	}
	if s.Failure != "" {
		s.finish()
		s.park(me)
	}
	if s.Points > s.MaxPts {
		s.Horizon = true
		s.finish()
		s.park(me)
	}
	// canonical order: running thread first if enabled, then ascending ids
	var en [8]*Thread
	n := 0
	runningEnabled := me != nil && me.enabled()
	yielding := me != nil && me.yielding
	if me != nil {
		me.yielding = false
	}
	if runningEnabled && !yielding {
		en[n] = me
		n++
	}
	for _, t := range s.threads {
		if t != me && t.enabled() {
			en[n] = t
			n++
		}
	}
	if runningEnabled && yielding {
		// a polling thread gives way: while another thread can run, the poller is not schedulable (fairness; otherwise pollers could hand
		// the processor to each other for ever), and switching away from it is not a preemption
		if n == 0 {
			en[n] = me
			n++
		}
		runningEnabled = false
	}
	if n == 0 {
		for _, t := range s.threads {
			if t.state != stDone {
				s.Deadlock = true
			}
		}
		s.finish()
		if me != nil && me.state != stDone {
			<-me.wake
			panic(abortT{})
		}
		return
	}
	pick := 0
	if n > 1 {
		pick = s.choose(KThread, n, runningEnabled)
	}
	next := en[pick]
	if next == me {
		return
	}
	s.cur = next
	next.wake <- struct{}{}
	if me == nil || me.state == stDone {
		return
	}
	<-me.wake
	if s.aborting {
		panic(abortT{})
	}
}

// Run starts the execution and returns when it is over (all done, deadlock, failure or horizon).
func (s *Sched) Run() {
	s.cur = nil
	s.yield()
	<-s.done
	// tear down: every thread still parked is released with the abort flag
	s.aborting = true
	for _, t := range s.threads {
		if t.state != stDone {
			select {
			case t.wake <- struct{}{}:
			default:
			}
		}
	}
	s.wg.Wait()
}

func (s *Sched) Blocked() []int {
	var r []int
	for _, t := range s.threads {
		if t.state != stDone {
			r = append(r, t.ID)
		}
	}
	return r
}

// Point is a plain scheduling point (used before atomics and other visible operations).
func Point() {
	s := S
	s.yield()
}

// Yield is the scheduling point of a polling loop (sleep-and-retry): the other enabled threads are preferred.
func Yield() {
	s := S
	if s.cur != nil {
		s.cur.yielding = true
	}
	s.yield()
}

// OthersEnabled reports whether a thread other than the running one could run now.
func (s *Sched) OthersEnabled() bool {
	for _, t := range s.threads {
		if t != s.cur && t.enabled() {
			return true
		}
	}
	return false
}

// Await blocks the calling thread until pred holds (evaluated at scheduling points; pred must only read harness state).
func Await(pred func() bool) {
	s := S
	t := s.cur
	t.state, t.pred = stPred, pred
	s.yield()
	t.state, t.pred = stRunnable, nil
}

// PointNote is Point plus a log line describing the operation about to happen.
func PointNote(format string, args ...any) {
	s := S
	s.yield()
	if s.Verbose {
		s.Note(format, args...)
	}
}

// ---------------------------------------------------------------- primitives

type Mutex struct {
	held  bool
	owner *Thread
}

func (m *Mutex) Lock() {
	s := S
	t := s.cur
	t.state, t.waitM = stLock, m
	s.yield()
	if m.held {
		panic("vs: scheduled a thread whose mutex is held")
	}
	s.Note("lock %p", m)
	m.held, m.owner = true, t
	t.state = stRunnable
}

func (m *Mutex) TryLock() bool {
	s := S
	s.yield()
	if m.held {
		return false
	}
	m.held, m.owner = true, s.cur
	return true
}

func (m *Mutex) Unlock() {
	if !m.held {
		S.Fail("unlock of an unlocked mutex by thread %d", S.cur.ID)
	}
	S.Note("unlock %p", m)
	m.held, m.owner = false, nil
}

func (m *Mutex) Held() bool { return m.held }

type Cond struct {
	waiters []*Thread
}

func (c *Cond) Wait(m *Mutex) {
	s := S
	t := s.cur
	if !m.held || m.owner != t {
		s.Fail("cond wait by thread %d without holding the mutex", t.ID)
	}
	// a scheduling point between the caller's last check and the atomic unlock-and-enqueue: a notifier that does not hold the mutex can slip in here
	s.yield()
	spurious := false
	if s.SpurLeft > 0 {
		if s.choose(KSpurious, 2, false) == 1 {
			spurious = true
			s.SpurLeft--
		}
	}
	m.held, m.owner = false, nil
	t.waitM = m
	s.Note("cond-wait %p (releases %p) spurious=%v", c, m, spurious)
	if spurious {
		t.state = stLock
	} else {
		t.state = stCond
		c.waiters = append(c.waiters, t)
	}
	s.yield()
	if m.held {
		panic("vs: woke a waiter whose mutex is held")
	}
	m.held, m.owner = true, t
	t.state = stRunnable
	s.Note("cond-wait %p returns (reacquired %p)", c, m)
}

func (c *Cond) Signal() {
	s := S
	s.yield()
	s.Note("signal %p waiters=%d", c, len(c.waiters))
	if n := len(c.waiters); n > 0 {
		k := 0
		if n > 1 {
			k = s.choose(KSignal, n, false)
		}
		w := c.waiters[k]
		c.waiters = append(c.waiters[:k:k], c.waiters[k+1:]...)
		w.state = stLock
	}
}

func (c *Cond) Broadcast() {
	s := S
	s.yield()
	s.Note("broadcast %p waiters=%d", c, len(c.waiters))
	for _, w := range c.waiters {
		w.state = stLock
	}
	c.waiters = nil
}

func (c *Cond) NWaiters() int { return len(c.waiters) }

type Once struct {
	m    Mutex
	done bool
}

func (o *Once) Do(f func()) {
	o.m.Lock()
	if !o.done {
		f()
		o.done = true
	}
	o.m.Unlock()
}

// ---------------------------------------------------------------- explorer

type Bounds struct {
	Preempt  int
	Spurious int
	Env      int   // bound on non-default environment answers (KEnv)
	MaxExecs int64 // cap (0 = none); hitting it is reported, never hidden
	Shard    int   // with NShards > 1: this process explores every NShards-th subtree at deviation depth 2
	NShards  int
}

type Stats struct {
	Execs     int64
	Points    int64
	MaxDepth  int
	Deadlocks int64
	Horizons  int64
	Capped    bool
}

// Explore runs body for every choice sequence within the bounds. body builds a fresh world on a new Sched
// (already installed as S), runs it, checks it, and returns false to stop (violation found).
func Explore(b Bounds, body func(s *Sched) bool) (st Stats, failing []uint8) {
	var rec func(prefix []uint8, depth int) bool
	branch := -1
	rec = func(prefix []uint8, depth int) bool {
		if b.MaxExecs > 0 && st.Execs >= b.MaxExecs {
			st.Capped = true
			return true
		}
		s := New(prefix, b.Spurious)
		ok := body(s)
		if depth >= 2 || b.NShards <= 1 || b.Shard == 0 {
			// the root execution and its direct children are run by every shard (they carry the subtrees) but counted once
			st.Execs++
			st.Points += int64(s.Points)
		}
		if len(s.Trace) > st.MaxDepth {
			st.MaxDepth = len(s.Trace)
		}
		if s.Deadlock {
			st.Deadlocks++
		}
		if s.Horizon {
			st.Horizons++
		}
		if !ok {
			failing = make([]uint8, len(s.Trace))
			for i, c := range s.Trace {
				failing[i] = c.Picked
			}
			return false
		}
		tr := s.Trace
		// deviations used before position i
		pre, spur, env := 0, 0, 0
		cost := make([][3]int, len(tr)+1)
		for i, c := range tr {
			cost[i] = [3]int{pre, spur, env}
			if c.Kind == KEnv && c.Picked != 0 {
				env++
			}
			if c.Kind == KThread && c.RunningEnabled && c.Picked != 0 {
				pre++
			}
			if c.Kind == KSpurious && c.Picked != 0 {
				spur++
			}
		}
		for i := len(prefix); i < len(tr); i++ {
			c := tr[i]
			p, sp, ev := cost[i][0], cost[i][1], cost[i][2]
			for alt := 1; alt < int(c.N); alt++ {
				switch c.Kind {
				case KEnv:
					if ev+1 > b.Env {
						continue
					}
				case KThread:
					if c.RunningEnabled && p+1 > b.Preempt {
						continue
					}
				case KSpurious:
					if sp+1 > b.Spurious {
						continue
					}
				}
				if depth == 1 && b.NShards > 1 {
					branch++
					if branch%b.NShards != b.Shard {
						continue
					}
				}
				np := make([]uint8, i+1)
				for j := 0; j < i; j++ {
					np[j] = tr[j].Picked
				}
				np[i] = uint8(alt)
				if !rec(np, depth+1) {
					return false
				}
			}
		}
		return true
	}
	rec(nil, 0)
	return
}
