package fetchx

import (
	"archive/tar"
	"bytes"
	"compress/gzip"
	"fmt"
	"os"
	"os/exec"
	"path/filepath"
	"sort"
	"strings"

	"github.com/goplus/llgo/runtime/vhttp"
	"github.com/goplus/llgo/runtime/vs"
	"github.com/goplus/llgo/runtime/vsyscall"
	"github.com/goplus/llgo/runtime/vtime"
)

// Scenario: N concurrent requests for one library archive into one destination.
type Scenario struct {
	N      int    `json:"threads"`
	Sub    string `json:"internal_dir"` // internalArchiveSrcDir ("" or "top")
	Faults bool   `json:"faults"`       // download failures on the environment's menu
	Jumps  bool   `json:"clock_jumps"`
	Fn     string `json:"entry"` // lib | wasi | esp
	Small  bool   `json:"small_tree"`
	Kinds  int    `json:"fault_kinds"` // 0 = all three
}

func (sc Scenario) String() string {
	return fmt.Sprintf("n=%d,sub=%q,faults=%v/%d,entry=%s,small=%v", sc.N, sc.Sub, sc.Faults, sc.Kinds, sc.Fn, sc.Small)
}

// the archived tree: path -> bytes ("" marks a directory)
var fullTree = map[string]string{"d/": "", "d/a.txt": "alpha-alpha-alpha", "b.txt": "bravo", "d/e/": "", "d/e/c.bin": "\x00\x01\x02charlie"}
var smallTree = map[string]string{"a.txt": "alpha-alpha-alpha", "d/b.txt": "bravo"}
var tree = fullTree

func archive(prefix string) []byte {
	var buf bytes.Buffer
	gz := gzip.NewWriter(&buf)
	tw := tar.NewWriter(gz)
	var names []string
	for n := range tree {
		names = append(names, n)
	}
	sort.Strings(names)
	if prefix != "" {
		tw.WriteHeader(&tar.Header{Name: prefix + "/", Typeflag: tar.TypeDir, Mode: 0755})
	}
	for _, n := range names {
		full := n
		if prefix != "" {
			full = prefix + "/" + n
		}
		if strings.HasSuffix(n, "/") {
			tw.WriteHeader(&tar.Header{Name: full, Typeflag: tar.TypeDir, Mode: 0755})
		} else {
			tw.WriteHeader(&tar.Header{Name: full, Typeflag: tar.TypeReg, Mode: 0644, Size: int64(len(tree[n]))})
			tw.Write([]byte(tree[n]))
		}
	}
	tw.Close()
	gz.Close()
	return buf.Bytes()
}

var xzCache = map[string][]byte{}

// archiveXz: the same tree below prefix as a .tar.xz made by the system tar (extractTarXz runs the system tar as well)
func archiveXz(prefix string) []byte {
	key := fmt.Sprintf("%s/%d", prefix, len(tree))
	if b, ok := xzCache[key]; ok {
		return b
	}
	dir, err := os.MkdirTemp(os.Getenv("VERIF_SCRATCH"), "xz")
	if err != nil {
		panic(err)
	}
	defer os.RemoveAll(dir)
	for n, c := range tree {
		p := filepath.Join(dir, prefix, n)
		if strings.HasSuffix(n, "/") {
			os.MkdirAll(p, 0755)
			continue
		}
		os.MkdirAll(filepath.Dir(p), 0755)
		os.WriteFile(p, []byte(c), 0644)
	}
	out := filepath.Join(dir, "a.tar.xz")
	if b, err := exec.Command("tar", "-cJf", out, "-C", dir, prefix).CombinedOutput(); err != nil {
		panic(fmt.Sprintf("tar -cJf: %v %s", err, b))
	}
	data, err := os.ReadFile(out)
	if err != nil {
		panic(err)
	}
	xzCache[key] = data
	return data
}

// complete reports what is wrong with the published copy ("" = complete and exact).
func complete(dst string) string {
	for n, want := range tree {
		p := filepath.Join(dst, n)
		if strings.HasSuffix(n, "/") {
			if fi, err := os.Stat(p); err != nil || !fi.IsDir() {
				return "directory " + n + " missing"
			}
			continue
		}
		got, err := os.ReadFile(p)
		if err != nil {
			return "file " + n + " missing"
		}
		if string(got) != want {
			return fmt.Sprintf("file %s has %d bytes %q, archived %q", n, len(got), got, want)
		}
	}
	return ""
}

type Outcome struct {
	Errs     []string
	Failure  string
	Deadlock bool
	Horizon  bool
	Final    string // state of the destination at the end
	Gets     int
	Leftover []string
	Polling  bool // the horizon was reached by code that sleeps and retries: undecided, not a livelock verdict
}

// Run executes one scenario on scheduler s below root (a fresh directory) and checks it.
func Run(s *vs.Sched, sc Scenario, root string) Outcome {
	vs.S = s
	tree = fullTree
	if sc.Small {
		tree = smallTree
	}
	vsyscall.Reset()
	vtime.Reset()
	vtime.Jumps = sc.Jumps
	url := "http://verif.invalid/dl/lib-1.0.tar.gz"
	espURL := fmt.Sprintf("%s/clang-esp-%s-%s.tar.xz", espClangBaseUrl, espClangVersion, "vt")
	vhttp.Bodies = map[string][]byte{url: archive(sc.Sub), wasiSdkUrl: archive(wasiMacosSubdir)}
	if sc.Fn == "esp" {
		vhttp.Bodies[espURL] = archiveXz("esp-clang")
	}
	vhttp.Faults, vhttp.Gets, vhttp.Failures = sc.Faults, 0, 0
	vhttp.Kinds = 3
	if sc.Kinds > 0 {
		vhttp.Kinds = sc.Kinds
	}
	cache := filepath.Join(root, "cache")
	dst := filepath.Join(cache, "lib-1.0")
	top := dst
	if sc.Fn == "wasi" {
		top = filepath.Join(cache, "sdk")
		dst = filepath.Join(top, wasiMacosSubdir)
	}
	if sc.Fn == "esp" {
		dst = filepath.Join(cache, "esp-clang-0")
		top = dst
	}
	errs := make([]error, sc.N)
	returned := make([]bool, sc.N)
	for i := 0; i < sc.N; i++ {
		i := i
		s.Go(func() {
			if sc.Fn == "wasi" {
				_, errs[i] = checkDownloadAndExtractWasiSDK(top)
			} else if sc.Fn == "esp" {
				errs[i] = checkDownloadAndExtractESPClang("vt", dst)
			} else {
				errs[i] = checkDownloadAndExtractLib(url, dst, sc.Sub)
			}
			returned[i] = true
			s.Note("request %d returns %v", i, errs[i])
		})
	}
	// published-means-complete: whenever the destination exists (that is what later requests test), it is the whole tree
	s.OnPoint = func() {
		if _, err := os.Lstat(dst); err == nil {
			if w := complete(dst); w != "" {
				s.Fail("destination exists but is not the archived tree: %s", w)
			}
		}
		for i := range returned {
			if returned[i] && errs[i] == nil {
				if _, err := os.Lstat(dst); err != nil {
					s.Fail("request %d returned success but the destination does not exist", i)
				}
			}
		}
	}
	s.Run()
	o := Outcome{Failure: s.Failure, Deadlock: s.Deadlock, Horizon: s.Horizon, Gets: vhttp.Gets}
	if o.Horizon && vtime.Sleeps > 20 {
		o.Horizon, o.Polling = false, true
	}
	for i, e := range errs {
		switch {
		case !returned[i]:
			o.Errs = append(o.Errs, "unfinished")
		case e == nil:
			o.Errs = append(o.Errs, "ok")
		default:
			o.Errs = append(o.Errs, "error")
		}
	}
	if o.Failure == "" && !o.Deadlock && !o.Horizon && !o.Polling {
		_, err := os.Lstat(dst)
		switch {
		case err != nil:
			o.Final = "absent"
		case complete(dst) == "":
			o.Final = "complete"
		default:
			o.Final = "broken: " + complete(dst)
		}
		if es, err := os.ReadDir(cache); err == nil {
			for _, e := range es {
				if filepath.Join(cache, e.Name()) != top {
					o.Leftover = append(o.Leftover, e.Name())
				}
			}
		}
		anyOK := false
		for _, e := range o.Errs {
			anyOK = anyOK || e == "ok"
		}
		if vhttp.Failures == 0 {
			// nothing went wrong in the environment: every request succeeds and exactly one copy is there
			for i, e := range o.Errs {
				if e != "ok" {
					o.Failure = fmt.Sprintf("request %d failed although no download failed: %v", i, errs[i])
				}
			}
		}
		if o.Failure == "" && anyOK && o.Final != "complete" {
			o.Failure = "a request returned success but the destination is " + o.Final
		}
		if o.Failure == "" && o.Final != "complete" && o.Final != "absent" {
			o.Failure = "destination is " + o.Final
		}
	}
	return o
}
