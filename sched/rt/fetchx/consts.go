package fetchx

// constants the copied fetch.go takes from its sibling files in internal/crosscompile
const (
	wasiSdkUrl      = "http://verif.invalid/wasi-sdk.tar.gz"
	wasiMacosSubdir = "wasi-sdk"
	espClangBaseUrl = "http://verif.invalid/esp"
	espClangVersion = "0"
)
