// Package vos stands in for package os in the copy of internal/crosscompile/fetch.go that runs under the controlled scheduler:
// every file-system operation is a scheduling point and then the real operation on the real file system.
package vos

import (
	"io/fs"
	"os"
	"time"

	"github.com/goplus/llgo/runtime/vs"
)

type (
	FileMode  = os.FileMode
	FileInfo  = os.FileInfo
	DirEntry  = os.DirEntry
	PathError = os.PathError
	LinkError = os.LinkError
)

const (
	O_RDONLY = os.O_RDONLY
	O_WRONLY = os.O_WRONLY
	O_RDWR   = os.O_RDWR
	O_APPEND = os.O_APPEND
	O_CREATE = os.O_CREATE
	O_EXCL   = os.O_EXCL
	O_SYNC   = os.O_SYNC
	O_TRUNC  = os.O_TRUNC

	ModePerm      = os.ModePerm
	ModeDir       = os.ModeDir
	ModeSymlink   = os.ModeSymlink
	PathSeparator = os.PathSeparator
)

var (
	ErrNotExist   = os.ErrNotExist
	ErrExist      = os.ErrExist
	ErrPermission = os.ErrPermission
	devnull, _    = os.OpenFile("/dev/null", os.O_WRONLY, 0)
	Stderr        = &File{File: devnull}
	Stdout        = &File{File: devnull}
	// OnClose is called with the descriptor before a file is closed (flock release of the descriptor's lock).
	OnClose func(fd int)
)

// File wraps *os.File so that Close is visible to the lock model (closing a descriptor drops its flock).
type File struct{ *os.File }

func (f *File) Close() error {
	if f == nil || f.File == nil {
		return os.ErrInvalid
	}
	vs.PointNote("close %s", f.Name())
	if OnClose != nil {
		OnClose(int(f.Fd()))
	}
	return f.File.Close()
}

func wrap(f *os.File, err error) (*File, error) {
	if err != nil {
		return nil, err
	}
	return &File{File: f}, nil
}

func Stat(name string) (FileInfo, error)  { vs.PointNote("stat %s", name); return os.Stat(name) }
func Lstat(name string) (FileInfo, error) { vs.PointNote("lstat %s", name); return os.Lstat(name) }
func Open(name string) (*File, error)     { vs.PointNote("open %s", name); return wrap(os.Open(name)) }
func Create(name string) (*File, error) {
	vs.PointNote("create %s", name)
	return wrap(os.Create(name))
}
func OpenFile(name string, flag int, perm FileMode) (*File, error) {
	vs.PointNote("openfile %s %#x", name, flag)
	return wrap(os.OpenFile(name, flag, perm))
}
func Mkdir(name string, perm FileMode) error {
	vs.PointNote("mkdir %s", name)
	return os.Mkdir(name, perm)
}
func MkdirAll(name string, perm FileMode) error {
	vs.PointNote("mkdirall %s", name)
	return os.MkdirAll(name, perm)
}
func Remove(name string) error    { vs.PointNote("remove %s", name); return os.Remove(name) }
func RemoveAll(name string) error { vs.PointNote("removeall %s", name); return os.RemoveAll(name) }
func Rename(a, b string) error    { vs.PointNote("rename %s -> %s", a, b); return os.Rename(a, b) }
func Symlink(a, b string) error   { vs.PointNote("symlink %s -> %s", b, a); return os.Symlink(a, b) }
func Link(a, b string) error      { vs.PointNote("link %s -> %s", b, a); return os.Link(a, b) }
func Readlink(name string) (string, error) {
	vs.PointNote("readlink %s", name)
	return os.Readlink(name)
}
func Chmod(name string, m FileMode) error { vs.PointNote("chmod %s", name); return os.Chmod(name, m) }
func Chtimes(name string, a, m time.Time) error {
	vs.PointNote("chtimes %s", name)
	return os.Chtimes(name, a, m)
}
func ReadFile(name string) ([]byte, error) {
	vs.PointNote("readfile %s", name)
	return os.ReadFile(name)
}
func WriteFile(name string, d []byte, p FileMode) error {
	vs.PointNote("writefile %s", name)
	return os.WriteFile(name, d, p)
}
func ReadDir(name string) ([]DirEntry, error) {
	vs.PointNote("readdir %s", name)
	return os.ReadDir(name)
}
func MkdirTemp(dir, pat string) (string, error) {
	vs.PointNote("mkdirtemp %s %s", dir, pat)
	return os.MkdirTemp(dir, pat)
}
func CreateTemp(dir, pat string) (*File, error) {
	vs.PointNote("createtemp %s %s", dir, pat)
	return wrap(os.CreateTemp(dir, pat))
}
func IsNotExist(err error) bool         { return os.IsNotExist(err) }
func IsExist(err error) bool            { return os.IsExist(err) }
func IsPermission(err error) bool       { return os.IsPermission(err) }
func SameFile(a, b FileInfo) bool       { return os.SameFile(a, b) }
func Getenv(k string) string            { return os.Getenv(k) }
func LookupEnv(k string) (string, bool) { return os.LookupEnv(k) }
func Getpid() int                       { return 1000 + vs.S.Cur().ID }
func TempDir() string                   { return os.TempDir() }
func Hostname() (string, error)         { return "verif", nil }
func DirFS(dir string) fs.FS            { return os.DirFS(dir) }
