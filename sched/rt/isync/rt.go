package isync

// runtime doors of internal/sync (llgo: linknamed to runtime/internal/lib/runtime/sema_llgo.go)

import semart "github.com/goplus/llgo/runtime/internal/lib/runtime"

func runtime_SemacquireMutex(s *uint32, lifo bool, skipframes int) { semart.XISemacquireMutex(s, lifo) }
func runtime_Semrelease(s *uint32, handoff bool, skipframes int)   { semart.XISemrelease(s, handoff) }
func runtime_canSpin(i int) bool                                   { return semart.XCanSpin(i) }
func runtime_doSpin()                                              { semart.XDoSpin() }
func runtime_nanotime() int64                                      { return semart.XNanotime() }
func throw(s string)                                               { panic("throw: " + s) }
func fatal(s string)                                               { panic("fatal: " + s) }
