// Package vrace stands in for internal/race (race detector off).
package vrace

import "unsafe"

const Enabled = false

func Acquire(unsafe.Pointer)         {}
func Release(unsafe.Pointer)         {}
func ReleaseMerge(unsafe.Pointer)    {}
func Disable()                       {}
func Enable()                        {}
func Read(unsafe.Pointer)            {}
func Write(unsafe.Pointer)           {}
func ReadRange(unsafe.Pointer, int)  {}
func WriteRange(unsafe.Pointer, int) {}
func Errors() int                    { return 0 }
