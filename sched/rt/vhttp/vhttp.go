// Package vhttp stands in for net/http in the scheduled copy of fetch.go: Get answers from the harness's table; whether the request
// fails, or the body breaks off half way, is an environment choice of the explorer.
package vhttp

import (
	"bytes"
	"errors"
	"io"

	"github.com/goplus/llgo/runtime/vs"
)

const (
	StatusOK       = 200
	StatusNotFound = 404
)

type Response struct {
	Status     string
	StatusCode int
	Body       io.ReadCloser
}

var (
	Bodies   map[string][]byte
	Faults   bool // whether failing answers are on the menu
	Kinds    = 3  // how many of the failing answers are on the menu
	Gets     int
	Failures int
)

type brokenBody struct {
	r    io.Reader
	done bool
}

func (b *brokenBody) Read(p []byte) (int, error) {
	n, err := b.r.Read(p)
	if err == io.EOF {
		return n, io.ErrUnexpectedEOF
	}
	return n, err
}
func (b *brokenBody) Close() error { return nil }

func Get(url string) (*Response, error) {
	vs.PointNote("http get %s", url)
	Gets++
	body, ok := Bodies[url]
	if !ok {
		return &Response{Status: "404 Not Found", StatusCode: StatusNotFound, Body: io.NopCloser(bytes.NewReader(nil))}, nil
	}
	pick := 0
	if Faults {
		pick = vs.S.Choose(vs.KEnv, 1+Kinds)
	}
	switch pick {
	case 1:
		Failures++
		vs.S.Note("http: connection error")
		return nil, errors.New("dial tcp: connection refused (injected)")
	case 2:
		Failures++
		vs.S.Note("http: body breaks off half way")
		return &Response{Status: "200 OK", StatusCode: StatusOK, Body: &brokenBody{r: bytes.NewReader(body[:len(body)/2])}}, nil
	case 3:
		Failures++
		vs.S.Note("http: 500")
		return &Response{Status: "500 Internal Server Error", StatusCode: 500, Body: io.NopCloser(bytes.NewReader([]byte("oops")))}, nil
	}
	return &Response{Status: "200 OK", StatusCode: StatusOK, Body: io.NopCloser(bytes.NewReader(body))}, nil
}
