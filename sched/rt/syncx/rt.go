package syncx

// runtime doors of package sync (llgo: linknamed to runtime/internal/lib/runtime/sema_llgo.go)

import (
	"unsafe"

	semart "github.com/goplus/llgo/runtime/internal/lib/runtime"
)

func runtime_Semacquire(s *uint32)                                    { semart.XSemacquire(s) }
func runtime_SemacquireWaitGroup(s *uint32)                           { semart.XSemacquireWaitGroup(s) }
func runtime_SemacquireRWMutexR(s *uint32, lifo bool, skipframes int) { semart.XSemacquireRWMutexR(s) }
func runtime_SemacquireRWMutex(s *uint32, lifo bool, skipframes int)  { semart.XSemacquireRWMutex(s) }
func runtime_Semrelease(s *uint32, handoff bool, skipframes int)      { semart.XSemrelease(s, handoff) }
func runtime_notifyListAdd(l *notifyList) uint32                      { return semart.XNotifyListAdd(unsafe.Pointer(l)) }
func runtime_notifyListWait(l *notifyList, t uint32)                  { semart.XNotifyListWait(unsafe.Pointer(l), t) }
func runtime_notifyListNotifyAll(l *notifyList)                       { semart.XNotifyListNotifyAll(unsafe.Pointer(l)) }
func runtime_notifyListNotifyOne(l *notifyList)                       { semart.XNotifyListNotifyOne(unsafe.Pointer(l)) }
func runtime_notifyListCheck(size uintptr)                            { semart.XNotifyListCheck(size) }
func throw(s string)                                                  { panic("throw: " + s) }
func fatal(s string)                                                  { panic("fatal: " + s) }
