package syncx

// C11 part C: the standard library's Mutex, RWMutex, WaitGroup, Once and Cond (copied at check time from the GOROOT llgo compiles against; only
// import paths redirected) running on llgo's real semaphore / notify-list code, under the controlled scheduler. Every schedule within the bounds
// is executed; the oracles are the clauses of the property.

import (
	"encoding/json"
	"fmt"
	"sort"
	"strings"
	"time"

	semart "github.com/goplus/llgo/runtime/internal/lib/runtime"
	"github.com/goplus/llgo/runtime/vs"
)

type Scenario struct {
	Kind string `json:"kind"` // mutex | rwmutex | waitgroup | once | cond
	A    int    `json:"a"`
	B    int    `json:"b"`
	C    int    `json:"c"`
	D    int    `json:"d"`
}

func (sc Scenario) String() string {
	return fmt.Sprintf("%s(%d,%d,%d,%d)", sc.Kind, sc.A, sc.B, sc.C, sc.D)
}

type Viol struct {
	Key      string
	What     string
	Scenario any
	Choices  []uint8
}

// Run executes one scenario on s and returns a description of the terminal state; property violations are reported through s.Fail.
func Run(sc Scenario, s *vs.Sched) string {
	semart.XReset()
	switch sc.Kind {
	case "mutex":
		return runMutex(sc, s)
	case "rwmutex":
		return runRW(sc, s)
	case "waitgroup":
		return runWG(sc, s)
	case "once":
		return runOnce(sc, s)
	case "cond":
		return runCond(sc, s)
	}
	panic("unknown scenario kind " + sc.Kind)
}

func blocked(s *vs.Sched) string {
	if b := s.Blocked(); len(b) > 0 {
		return fmt.Sprintf(" blocked=%v", b)
	}
	return ""
}

// mutex: A lockers and B try-lockers, C critical sections each, on one Mutex
func runMutex(sc Scenario, s *vs.Sched) string {
	var mu Mutex
	inCS, counter, entered := 0, 0, 0
	body := func(who int) {
		inCS++
		if inCS != 1 {
			s.Fail("mutual exclusion broken: %d threads inside the critical section (thread %d entering)", inCS, who)
		}
		c := counter
		vs.Point() // the section is not atomic
		counter = c + 1
		entered++
		inCS--
	}
	for t := 0; t < sc.A; t++ {
		t := t
		s.Go(func() {
			for i := 0; i < sc.C; i++ {
				mu.Lock()
				body(t)
				mu.Unlock()
			}
		})
	}
	for t := 0; t < sc.B; t++ {
		t := sc.A + t
		s.Go(func() {
			for i := 0; i < sc.C; i++ {
				if mu.TryLock() {
					body(t)
					mu.Unlock()
				}
			}
		})
	}
	s.Run()
	if s.Failure == "" && !s.Horizon {
		if s.Deadlock {
			s.Fail("a Lock never returned although every holder unlocked: threads %v blocked", s.Blocked())
		} else if counter != entered || entered < sc.A*sc.C {
			s.Fail("lost update: %d sections entered, counter %d, at least %d expected", entered, counter, sc.A*sc.C)
		}
	}
	return fmt.Sprintf("entered=%d", entered)
}

// rwmutex: A readers, B writers, C sections each; D=1 adds a TryLock/TryRLock thread
func runRW(sc Scenario, s *vs.Sched) string {
	var rw RWMutex
	readers, writers, maxReaders, writes := 0, 0, 0, 0
	rbody := func() {
		readers++
		if writers != 0 {
			s.Fail("a reader is inside while a writer holds the lock")
		}
		if readers > maxReaders {
			maxReaders = readers
		}
		vs.Point()
		readers--
	}
	wbody := func() {
		writers++
		if writers != 1 || readers != 0 {
			s.Fail("writer not exclusive: writers=%d readers=%d", writers, readers)
		}
		w := writes
		vs.Point()
		writes = w + 1
		writers--
	}
	for t := 0; t < sc.A; t++ {
		s.Go(func() {
			for i := 0; i < sc.C; i++ {
				rw.RLock()
				rbody()
				rw.RUnlock()
			}
		})
	}
	for t := 0; t < sc.B; t++ {
		s.Go(func() {
			for i := 0; i < sc.C; i++ {
				rw.Lock()
				wbody()
				rw.Unlock()
			}
		})
	}
	if sc.D == 1 {
		s.Go(func() {
			if rw.TryLock() {
				wbody()
				rw.Unlock()
			}
			if rw.TryRLock() {
				rbody()
				rw.RUnlock()
			}
		})
	}
	s.Run()
	if s.Failure == "" && !s.Horizon {
		if s.Deadlock {
			s.Fail("an RLock/Lock never returned although every holder unlocked: threads %v blocked", s.Blocked())
		} else if writes < sc.B*sc.C {
			s.Fail("lost write: %d of %d", writes, sc.B*sc.C)
		}
	}
	return fmt.Sprintf("maxReaders=%d writes=%d", maxReaders, writes)
}

// waitgroup: A workers, B waiters, C=1: the group is used for a second round after Wait returned
func runWG(sc Scenario, s *vs.Sched) string {
	var wg WaitGroup
	rounds := 1 + sc.C
	released := make([]bool, rounds)
	done := make([][]bool, rounds)
	for r := range done {
		done[r] = make([]bool, sc.A)
	}
	check := func(r int, who string) {
		for w, d := range done[r] {
			if !d {
				s.Fail("%s: Wait returned in round %d before worker %d called Done", who, r, w)
			}
		}
	}
	s.Go(func() { // the owner: Add, start the workers, Wait
		for r := 0; r < rounds; r++ {
			wg.Add(sc.A)
			released[r] = true
			wg.Wait()
			check(r, "owner")
		}
	})
	for w := 0; w < sc.A; w++ {
		w := w
		s.Go(func() {
			for r := 0; r < rounds; r++ {
				vs.Await(func() bool { return released[r] })
				done[r][w] = true
				wg.Done()
			}
		})
	}
	for b := 1; b < sc.B; b++ { // further waiters (first round only: a new round may start only after all Waits returned)
		s.Go(func() {
			if rounds > 1 {
				return
			}
			vs.Await(func() bool { return released[0] })
			wg.Wait()
			check(0, "second waiter")
		})
	}
	s.Run()
	if s.Failure == "" && !s.Horizon && s.Deadlock {
		s.Fail("Wait or Done never returned: threads %v blocked", s.Blocked())
	}
	return "ok"
}

// once: A threads call Do(f), B of them twice
func runOnce(sc Scenario, s *vs.Sched) string {
	var once Once
	count, val := 0, 0
	f := func() {
		c := count
		vs.Point()
		count = c + 1
		vs.Point()
		val = 42
	}
	for t := 0; t < sc.A; t++ {
		t := t
		s.Go(func() {
			n := 1
			if t < sc.B {
				n = 2
			}
			for i := 0; i < n; i++ {
				once.Do(f)
				if count != 1 || val != 42 {
					s.Fail("Do returned to thread %d with count=%d val=%d (function must have run exactly once and completely)", t, count, val)
				}
			}
		})
	}
	s.Run()
	if s.Failure == "" && !s.Horizon && s.Deadlock {
		s.Fail("Do never returned: threads %v blocked", s.Blocked())
	}
	return fmt.Sprintf("count=%d", count)
}

// cond: A waiters; B Signal calls, C=1 Broadcast instead; D=1: the signaller does not wait for the waiters to have started
func runCond(sc Scenario, s *vs.Sched) string {
	var mu Mutex
	c := NewCond(&mu)
	started, sig, returned := 0, 0, 0
	for w := 0; w < sc.A; w++ {
		w := w
		s.Go(func() {
			mu.Lock()
			started++
			snap := sig
			c.Wait()
			if sig <= snap {
				s.Fail("waiter %d: Wait returned although no Signal/Broadcast was issued after it started waiting (issued before: %d, now: %d)", w, snap, sig)
			}
			returned++
			mu.Unlock()
		})
	}
	s.Go(func() {
		if sc.D == 0 {
			vs.Await(func() bool { return started >= sc.A })
		}
		if sc.C == 1 {
			mu.Lock()
			sig++
			c.Broadcast()
			mu.Unlock()
			return
		}
		for i := 0; i < sc.B; i++ {
			mu.Lock()
			sig++
			c.Signal()
			mu.Unlock()
		}
	})
	s.Run()
	if s.Failure == "" && !s.Horizon && sc.D == 0 {
		want := sc.B
		if sc.C == 1 || want > sc.A {
			want = sc.A
		}
		if returned != want {
			s.Fail("%d of %d waiters returned; all had started waiting before %s: exactly %d must return", returned, sc.A,
				map[bool]string{true: "the Broadcast", false: fmt.Sprintf("%d Signal calls", sc.B)}[sc.C == 1], want)
		}
	}
	return fmt.Sprintf("returned=%d%s", returned, blocked(s))
}

// ---------------------------------------------------------------- families

func Family(name string) []Scenario {
	var scs []Scenario
	switch name {
	case "mutex":
		scs = []Scenario{{"mutex", 2, 0, 1, 0}, {"mutex", 2, 0, 2, 0}, {"mutex", 3, 0, 1, 0}, {"mutex", 1, 1, 2, 0}, {"mutex", 2, 1, 1, 0}}
	case "mutexx":
		scs = []Scenario{{"mutex", 3, 0, 2, 0}, {"mutex", 4, 0, 1, 0}, {"mutex", 2, 2, 2, 0}, {"mutex", 3, 1, 1, 0}}
	case "rwmutex":
		scs = []Scenario{{"rwmutex", 1, 1, 1, 0}, {"rwmutex", 2, 1, 1, 0}, {"rwmutex", 1, 2, 1, 0}, {"rwmutex", 1, 1, 2, 0}, {"rwmutex", 1, 1, 1, 1}, {"rwmutex", 2, 0, 2, 1}}
	case "rwmutexx":
		scs = []Scenario{{"rwmutex", 2, 2, 1, 0}, {"rwmutex", 2, 1, 2, 0}, {"rwmutex", 3, 1, 1, 0}, {"rwmutex", 2, 1, 1, 1}}
	case "waitgroup":
		scs = []Scenario{{"waitgroup", 1, 1, 0, 0}, {"waitgroup", 2, 1, 0, 0}, {"waitgroup", 1, 2, 0, 0}, {"waitgroup", 2, 2, 0, 0}, {"waitgroup", 1, 1, 1, 0}, {"waitgroup", 2, 1, 1, 0}}
	case "waitgroupx":
		scs = []Scenario{{"waitgroup", 3, 1, 0, 0}, {"waitgroup", 3, 2, 0, 0}, {"waitgroup", 2, 3, 0, 0}}
	case "once":
		scs = []Scenario{{"once", 2, 0, 0, 0}, {"once", 3, 0, 0, 0}, {"once", 2, 2, 0, 0}, {"once", 3, 1, 0, 0}}
	case "oncex":
		scs = []Scenario{{"once", 4, 0, 0, 0}, {"once", 3, 3, 0, 0}}
	case "cond":
		scs = []Scenario{{"cond", 1, 1, 0, 0}, {"cond", 2, 1, 0, 0}, {"cond", 2, 2, 0, 0}, {"cond", 2, 0, 1, 0}, {"cond", 1, 2, 0, 0}, {"cond", 1, 1, 0, 1}, {"cond", 2, 1, 0, 1}, {"cond", 2, 0, 1, 1}}
	case "condx":
		scs = []Scenario{{"cond", 3, 0, 1, 0}, {"cond", 3, 2, 0, 0}, {"cond", 3, 1, 0, 1}}
	default:
		panic("unknown sync family " + name)
	}
	return scs
}

func RunFamily(name string, shard, nshards int, b vs.Bounds, deadline time.Time,
	report func(scen int, execs, points, dead, horiz int64, nout int, capped bool, depth int, sample string, v *Viol), timedOut func()) {
	for i, sc := range Family(name) {
		if i%nshards != shard {
			continue
		}
		if time.Now().After(deadline) {
			timedOut()
			return
		}
		seen := map[string]bool{}
		var bad string
		st, failing := vs.Explore(b, func(s *vs.Sched) bool {
			vs.S = s
			out := Run(sc, s)
			if s.Horizon && s.Failure == "" {
				bad = "no progress within the horizon (livelock or unbounded retry)"
				return false
			}
			if s.Failure != "" {
				bad = s.Failure
				return false
			}
			seen[out] = true
			return !time.Now().After(deadline)
		})
		if failing != nil && bad == "" { // stopped by the deadline
			timedOut()
			failing = nil
		}
		var v *Viol
		if failing != nil {
			v = &Viol{Key: "sync:" + sc.String() + " => " + bad, What: bad + " :: scenario " + sc.String(), Scenario: sc, Choices: failing}
		}
		sample := ""
		if len(seen) > 1 {
			sample = fmt.Sprintf("%s -> %d schedules, terminal states %v", sc.String(), st.Execs, keys(seen))
		}
		report(1, st.Execs, st.Points, st.Deadlocks, st.Horizons, len(seen), st.Capped, st.MaxDepth, sample, v)
	}
}

func keys(m map[string]bool) []string {
	var ks []string
	for k := range m {
		ks = append(ks, k)
	}
	sort.Strings(ks)
	return ks
}

func Replay(scenarioJSON []byte, choices []uint8, spur int, verbose bool) string {
	var sc Scenario
	if err := json.Unmarshal(scenarioJSON, &sc); err != nil {
		panic(err)
	}
	s := vs.New(choices, spur)
	vs.S = s
	s.Verbose = verbose
	o := Run(sc, s)
	if verbose {
		fmt.Println(strings.Join(s.Log, "\n"))
	}
	return fmt.Sprintf("terminal [%s] failure=%q horizon=%v deadlock=%v", o, s.Failure, s.Horizon, s.Deadlock)
}
