// Package vtime stands in for package time should fetch.go poll: Sleep is a yielding scheduling point on a virtual clock, and
// "a long time passes while sleeping" is an environment choice.
package vtime

import (
	"time"

	"github.com/goplus/llgo/runtime/vs"
)

type (
	Time     = time.Time
	Duration = time.Duration
)

const (
	Nanosecond  = time.Nanosecond
	Microsecond = time.Microsecond
	Millisecond = time.Millisecond
	Second      = time.Second
	Minute      = time.Minute
	Hour        = time.Hour
)

var (
	Offset time.Duration
	Jumps  bool
	Sleeps int
)

func Reset()                { Offset, Sleeps = 0, 0 }
func Now() Time             { return time.Now().Add(Offset) }
func Since(t Time) Duration { return Now().Sub(t) }
func Until(t Time) Duration { return t.Sub(Now()) }
func Unix(s, ns int64) Time { return time.Unix(s, ns) }
func Sleep(d Duration) {
	Offset += d
	Sleeps++
	if !vs.S.OthersEnabled() {
		// everybody else is blocked or asleep: any amount of time may pass before the next thing happens, so a time-out the sleeper is
		// waiting for is reached now rather than after thousands of polls (otherwise a long wait would look like a livelock)
		Offset += time.Hour
	}
	if Jumps && vs.S.Choose(vs.KEnv, 2) == 1 {
		vs.S.Note("clock: 24h pass during this sleep")
		Offset += 24 * time.Hour
	}
	vs.Yield()
}
func After(d Duration) <-chan Time {
	panic("vtime: After is not modelled")
}
