package runtime

import "unsafe"

// AllocU stand-in (the real one calls the collector's malloc).
func AllocU(size uintptr) unsafe.Pointer {
	if size == 0 {
		return nil
	}
	b := make([]byte, size)
	return unsafe.Pointer(&b[0])
}
