package runtime

import "unsafe"

// AllocU stand-in (the real one calls the collector's malloc).
func AllocU(size uintptr) unsafe.Pointer {
	if size == 0 {
		return nil
	}
	b := make([]byte, size)
	return unsafe.Pointer(&b[0])
}

// stand-ins for the runtime's error string type and allocation limit
type errorString string

func (e errorString) Error() string { return "runtime error: " + string(e) }

const maxAlloc = 1 << 47
