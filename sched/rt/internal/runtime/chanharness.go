package runtime

// C10 harness (lives in the package of the real z_chan.go copy, so it reads Chan's fields directly).

import (
	"fmt"
	"sort"
	"strconv"
	"strings"
	"unsafe"

	"github.com/goplus/llgo/runtime/vs"
)

type SelCase struct {
	Send bool
	C    int
}

// COp kinds: s send, r recv, c close, S try-send, R try-recv, L blocking select, T select with default
type COp struct {
	K     byte
	C     int
	Cases []SelCase
}

func (o COp) String() string {
	switch o.K {
	case 'L', 'T':
		var cs []string
		for _, c := range o.Cases {
			if c.Send {
				cs = append(cs, "s"+strconv.Itoa(c.C))
			} else {
				cs = append(cs, "r"+strconv.Itoa(c.C))
			}
		}
		return string(o.K) + "(" + strings.Join(cs, "|") + ")"
	}
	return string(o.K) + strconv.Itoa(o.C)
}

type Scenario struct {
	Caps    []int
	Threads [][]COp
}

func (sc Scenario) String() string {
	var ts []string
	for _, t := range sc.Threads {
		var os []string
		for _, o := range t {
			os = append(os, o.String())
		}
		ts = append(ts, strings.Join(os, ","))
	}
	return fmt.Sprintf("caps=%v %s", sc.Caps, strings.Join(ts, " || "))
}

func val(t, k int) int64 { return int64((t+1)*100 + k + 1) }

// ------------------------------------------------------------------ reference LTS (boring Go channels)

type offer struct {
	t, cas int // thread, case index (0 for plain ops)
	send   bool
	c      int
	block  bool
}

type refState struct {
	pc     []int
	stop   []bool // thread terminated by a send on a closed channel (Go: panic)
	bufs   [][]int64
	closed []bool
	obs    []string
}

func (st *refState) clone() *refState {
	n := &refState{pc: append([]int{}, st.pc...), stop: append([]bool{}, st.stop...), closed: append([]bool{}, st.closed...), obs: append([]string{}, st.obs...)}
	for _, b := range st.bufs {
		n.bufs = append(n.bufs, append([]int64{}, b...))
	}
	return n
}

func (st *refState) key() string {
	return fmt.Sprint(st.pc, st.stop, st.bufs, st.closed, st.obs)
}

func obsRecv(kind byte, cas int, v int64, ok bool) string {
	vs := "-"
	if ok {
		vs = strconv.FormatInt(v, 10)
	}
	switch kind {
	case 'r':
		return "r" + vs
	case 'R':
		return "R" + vs
	}
	return string(kind) + strconv.Itoa(cas) + ":" + vs
}

func obsSend(kind byte, cas int) string {
	switch kind {
	case 's':
		return "s"
	case 'S':
		return "S1"
	}
	return string(kind) + strconv.Itoa(cas) + ":s"
}

// RefOutcomes enumerates every terminal outcome of the scenario under Go's channel semantics.
func RefOutcomes(sc Scenario) map[string]bool {
	nt := len(sc.Threads)
	init := &refState{pc: make([]int, nt), stop: make([]bool, nt), bufs: make([][]int64, len(sc.Caps)), closed: make([]bool, len(sc.Caps)), obs: make([]string, nt)}
	out := map[string]bool{}
	seen := map[string]bool{}
	var dfs func(st *refState)
	dfs = func(st *refState) {
		k := st.key()
		if seen[k] {
			return
		}
		seen[k] = true
		var succ []*refState
		adv := func(n *refState, t int, o string) {
			n.obs[t] += o + ","
			n.pc[t]++
		}
		var offers []offer
		for t := 0; t < nt; t++ {
			if st.stop[t] || st.pc[t] >= len(sc.Threads[t]) {
				continue
			}
			op := sc.Threads[t][st.pc[t]]
			switch op.K {
			case 'c':
				n := st.clone()
				n.closed[op.C] = true
				adv(n, t, "c")
				succ = append(succ, n)
			case 's', 'S':
				offers = append(offers, offer{t, 0, true, op.C, op.K == 's'})
			case 'r', 'R':
				offers = append(offers, offer{t, 0, false, op.C, op.K == 'r'})
			case 'L', 'T':
				for i, cs := range op.Cases {
					offers = append(offers, offer{t, i, cs.Send, cs.C, op.K == 'L'})
				}
			}
		}
		unaryReady := map[int]bool{} // thread has a case that can complete on its own
		for _, of := range offers {
			op := sc.Threads[of.t][st.pc[of.t]]
			c := of.c
			if of.send {
				if st.closed[c] {
					// Go: panic. Only plain sends reach here (scenarios exclude select-sends on closable channels).
					n := st.clone()
					n.obs[of.t] += "s!,"
					n.stop[of.t] = true
					succ = append(succ, n)
					unaryReady[of.t] = true
				} else if sc.Caps[c] > 0 && len(st.bufs[c]) < sc.Caps[c] {
					n := st.clone()
					n.bufs[c] = append(n.bufs[c], val(of.t, st.pc[of.t]))
					adv(n, of.t, obsSend(op.K, of.cas))
					succ = append(succ, n)
					unaryReady[of.t] = true
				}
			} else {
				if len(st.bufs[c]) > 0 {
					n := st.clone()
					v := n.bufs[c][0]
					n.bufs[c] = n.bufs[c][1:]
					adv(n, of.t, obsRecv(op.K, of.cas, v, true))
					succ = append(succ, n)
					unaryReady[of.t] = true
				} else if st.closed[c] {
					n := st.clone()
					adv(n, of.t, obsRecv(op.K, of.cas, 0, false))
					succ = append(succ, n)
					unaryReady[of.t] = true
				}
			}
		}
		// rendezvous on unbuffered channels: a send offer and a receive offer of two threads, at least one blocking
		for _, a := range offers {
			if !a.send || sc.Caps[a.c] != 0 || st.closed[a.c] {
				continue
			}
			for _, b := range offers {
				if b.send || b.c != a.c || b.t == a.t || (!a.block && !b.block) {
					continue
				}
				n := st.clone()
				opa, opb := sc.Threads[a.t][st.pc[a.t]], sc.Threads[b.t][st.pc[b.t]]
				v := val(a.t, st.pc[a.t])
				adv(n, a.t, obsSend(opa.K, a.cas))
				adv(n, b.t, obsRecv(opb.K, b.cas, v, true))
				succ = append(succ, n)
			}
		}
		// default branches: only when no case can complete on its own
		for t := 0; t < nt; t++ {
			if st.stop[t] || st.pc[t] >= len(sc.Threads[t]) || unaryReady[t] {
				continue
			}
			op := sc.Threads[t][st.pc[t]]
			var o string
			switch op.K {
			case 'S':
				o = "S0"
			case 'R':
				o = "R0"
			case 'T':
				o = "Td"
			default:
				continue
			}
			n := st.clone()
			adv(n, t, o)
			succ = append(succ, n)
		}
		if len(succ) == 0 {
			out[refOutcome(sc, st)] = true
			return
		}
		for _, n := range succ {
			dfs(n)
		}
	}
	dfs(init)
	return out
}

func refOutcome(sc Scenario, st *refState) string {
	var parts []string
	for t := range sc.Threads {
		status := "D"
		if st.stop[t] {
			status = "X"
		} else if st.pc[t] < len(sc.Threads[t]) {
			status = "B" + strconv.Itoa(st.pc[t])
		}
		parts = append(parts, st.obs[t]+status)
	}
	return strings.Join(parts, " | ")
}

// ------------------------------------------------------------------ implementation run

var keepAlive []*Chan

func allocChans(caps []int) []*Chan {
	// selectSendFirst orders by channel address: enforce addr(ch[i]) < addr(ch[i+1]) so runs are replayable
	for try := 0; try < 1000; try++ {
		chs := make([]*Chan, len(caps))
		ok := true
		for i, cp := range caps {
			chs[i] = NewChan(8, cp)
			if i > 0 && uintptr(unsafe.Pointer(chs[i])) <= uintptr(unsafe.Pointer(chs[i-1])) {
				ok = false
			}
		}
		if ok {
			keepAlive = keepAlive[:0]
			return chs
		}
		keepAlive = append(keepAlive, chs...)
	}
	panic("harness: could not allocate channels in address order")
}

type implRun struct {
	obs   []string
	pc    []int
	stop  []bool
	chans []*Chan
}

// RunImpl executes the scenario on the real channel code under scheduler s and returns its outcome.
func RunImpl(sc Scenario, s *vs.Sched) string {
	nt := len(sc.Threads)
	r := &implRun{obs: make([]string, nt), pc: make([]int, nt), stop: make([]bool, nt)}
	r.chans = allocChans(sc.Caps)
	s.OnPoint = func() {
		for i, ch := range r.chans {
			if ch.len < 0 || ch.len > ch.cap || ch.getp < 0 || (ch.cap > 0 && ch.getp >= ch.cap) || (ch.cap == 0 && ch.getp > 1) || ch.selsends > ch.sends {
				s.Fail("channel %d state invariant broken: len=%d cap=%d getp=%d sends=%d selsends=%d", i, ch.len, ch.cap, ch.getp, ch.sends, ch.selsends)
			}
		}
	}
	for t := 0; t < nt; t++ {
		t := t
		s.Go(func() {
			for k, op := range sc.Threads[t] {
				r.pc[t] = k
				var o string
				switch op.K {
				case 'c':
					ChanClose(r.chans[op.C])
					o = "c"
				case 's':
					v := val(t, k)
					if sendOrClosed(r.chans[op.C], unsafe.Pointer(&v)) {
						o = "s"
					} else {
						r.obs[t] += "s!,"
						r.stop[t] = true
						r.pc[t] = k
						return
					}
				case 'r':
					var v int64
					ok := ChanRecv(r.chans[op.C], unsafe.Pointer(&v), 8)
					if !ok && v != 0 {
						s.Fail("receive on closed channel left a non-zero value %d", v)
					}
					o = obsRecv('r', 0, v, ok)
				case 'S', 'R', 'T', 'L':
					cases := op.Cases
					if op.K == 'S' {
						cases = []SelCase{{true, op.C}}
					} else if op.K == 'R' {
						cases = []SelCase{{false, op.C}}
					}
					vals := make([]int64, len(cases))
					ops := make([]ChanOp, len(cases))
					for i, cs := range cases {
						if cs.Send {
							vals[i] = val(t, k)
						}
						ops[i] = ChanOp{C: r.chans[cs.C], Val: unsafe.Pointer(&vals[i]), Size: 8, Send: cs.Send}
					}
					var isel int
					var recvOK, tryOK bool
					if op.K == 'L' {
						isel, recvOK = Select(ops...)
						tryOK = true
					} else {
						isel, recvOK, tryOK = TrySelect(ops...)
					}
					switch {
					case !tryOK:
						o = map[byte]string{'S': "S0", 'R': "R0", 'T': "Td"}[op.K]
					case isel < 0 || isel >= len(cases):
						s.Fail("select returned case index %d of %d", isel, len(cases))
					case cases[isel].Send:
						o = obsSend(op.K, isel)
					default:
						o = obsRecv(op.K, isel, vals[isel], recvOK)
					}
				}
				r.obs[t] += o + ","
				r.pc[t] = k + 1
			}
		})
	}
	s.Run()
	blocked := map[int]bool{}
	for _, id := range s.Blocked() {
		blocked[id] = true
	}
	var parts []string
	for t := 0; t < nt; t++ {
		status := "D"
		if r.stop[t] {
			status = "X"
		} else if blocked[t] || r.pc[t] < len(sc.Threads[t]) {
			status = "B" + strconv.Itoa(r.pc[t])
		}
		parts = append(parts, r.obs[t]+status)
	}
	return strings.Join(parts, " | ")
}

// sendOrClosed reports false when the send hit a closed channel (Go: panic "send on closed channel";
// older llgo: ChanSend returned false). Any other panic propagates.
func sendOrClosed(c *Chan, v unsafe.Pointer) (ok bool) {
	defer func() {
		if r := recover(); r != nil {
			if s, isStr := r.(string); isStr && strings.Contains(s, "send on closed channel") {
				ok = false
				return
			}
			panic(r)
		}
	}()
	return ChanSend(c, v, 8)
}

func SortedKeys(m map[string]bool) []string {
	var ks []string
	for k := range m {
		ks = append(ks, k)
	}
	sort.Strings(ks)
	return ks
}
