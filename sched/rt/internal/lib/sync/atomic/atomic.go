// Stand-in for llgo's sync/atomic: sequentially consistent, every operation preceded by a scheduling point.
package atomic

import (
	"unsafe"

	"github.com/goplus/llgo/runtime/vs"
)

func LoadUint32(p *uint32) uint32     { vs.PointNote("atomic load %p = %d", p, *p); return *p }
func StoreUint32(p *uint32, v uint32) { vs.PointNote("atomic store %p %d", p, v); *p = v }
func AddUint32(p *uint32, d uint32) uint32 {
	vs.PointNote("atomic add %p %d+%d", p, *p, d)
	*p += d
	return *p
}
func SwapUint32(p *uint32, v uint32) uint32 { vs.Point(); o := *p; *p = v; return o }
func CompareAndSwapUint32(p *uint32, o, n uint32) bool {
	vs.PointNote("atomic cas %p cur=%d old=%d new=%d", p, *p, o, n)
	if *p == o {
		*p = n
		return true
	}
	return false
}
func LoadInt32(p *int32) int32         { vs.Point(); return *p }
func StoreInt32(p *int32, v int32)     { vs.Point(); *p = v }
func AddInt32(p *int32, d int32) int32 { vs.Point(); *p += d; return *p }
func CompareAndSwapInt32(p *int32, o, n int32) bool {
	vs.Point()
	if *p == o {
		*p = n
		return true
	}
	return false
}

func LoadUintptr(p *uintptr) uintptr     { vs.Point(); return *p }
func StoreUintptr(p *uintptr, v uintptr) { vs.Point(); *p = v }
func CompareAndSwapUintptr(p *uintptr, o, n uintptr) bool {
	vs.Point()
	if *p == o {
		*p = n
		return true
	}
	return false
}

// typed atomics as the standard sync package uses them
type Int32 struct{ v int32 }

func (x *Int32) Load() int32   { vs.PointNote("Int32.Load %p = %d", x, x.v); return x.v }
func (x *Int32) Store(v int32) { vs.PointNote("Int32.Store %p %d", x, v); x.v = v }
func (x *Int32) Add(d int32) int32 {
	vs.PointNote("Int32.Add %p %d+%d", x, x.v, d)
	x.v += d
	return x.v
}
func (x *Int32) Swap(v int32) int32 { vs.Point(); o := x.v; x.v = v; return o }
func (x *Int32) CompareAndSwap(o, n int32) bool {
	vs.PointNote("Int32.CAS %p cur=%d old=%d new=%d", x, x.v, o, n)
	if x.v == o {
		x.v = n
		return true
	}
	return false
}

type Uint32 struct{ v uint32 }

func (x *Uint32) Load() uint32         { vs.PointNote("Uint32.Load %p = %d", x, x.v); return x.v }
func (x *Uint32) Store(v uint32)       { vs.PointNote("Uint32.Store %p %d", x, v); x.v = v }
func (x *Uint32) Add(d uint32) uint32  { vs.Point(); x.v += d; return x.v }
func (x *Uint32) Swap(v uint32) uint32 { vs.Point(); o := x.v; x.v = v; return o }
func (x *Uint32) CompareAndSwap(o, n uint32) bool {
	vs.Point()
	if x.v == o {
		x.v = n
		return true
	}
	return false
}

type Uint64 struct{ v uint64 }

func (x *Uint64) Load() uint64   { vs.PointNote("Uint64.Load %p = %#x", x, x.v); return x.v }
func (x *Uint64) Store(v uint64) { vs.PointNote("Uint64.Store %p %#x", x, v); x.v = v }
func (x *Uint64) Add(d uint64) uint64 {
	vs.PointNote("Uint64.Add %p %#x+%#x", x, x.v, d)
	x.v += d
	return x.v
}
func (x *Uint64) Swap(v uint64) uint64 { vs.Point(); o := x.v; x.v = v; return o }
func (x *Uint64) CompareAndSwap(o, n uint64) bool {
	vs.PointNote("Uint64.CAS %p cur=%#x old=%#x new=%#x", x, x.v, o, n)
	if x.v == o {
		x.v = n
		return true
	}
	return false
}

type Bool struct{ v bool }

func (x *Bool) Load() bool   { vs.Point(); return x.v }
func (x *Bool) Store(v bool) { vs.Point(); x.v = v }

// ---- pointer operations (used by llgo's own atomic.Value, value.go, which is copied from the working tree at check time)

type lastLoadT struct {
	p *unsafe.Pointer
	v unsafe.Pointer
}

var lastLoad = map[int]lastLoadT{}

// ResetSpin forgets the per-thread spin detector (start of an execution).
func ResetSpin() { lastLoad = map[int]lastLoadT{} }

// LoadPointer: a thread that re-loads the address it loaded in its previous atomic operation and would see the same value is busy-waiting; that
// iteration is a stutter step, so the thread waits (blocked, like a condition wait) until the location holds a different value instead of unrolling
// the spin loop; a spin that nothing ends shows as a terminal state with a blocked thread. Any other atomic operation of the thread ends the spin.
func LoadPointer(p *unsafe.Pointer) unsafe.Pointer {
	id := vs.S.Cur().ID
	if l, ok := lastLoad[id]; ok && l.p == p && l.v == *p {
		vs.Await(func() bool { return *p != l.v })
	} else {
		vs.PointNote("atomic load ptr %p", p)
	}
	v := *p
	lastLoad[id] = lastLoadT{p, v}
	return v
}

func StorePointer(p *unsafe.Pointer, v unsafe.Pointer) {
	delete(lastLoad, vs.S.Cur().ID)
	vs.PointNote("atomic store ptr %p", p)
	*p = v
}

func SwapPointer(p *unsafe.Pointer, v unsafe.Pointer) unsafe.Pointer {
	delete(lastLoad, vs.S.Cur().ID)
	vs.PointNote("atomic swap ptr %p", p)
	o := *p
	*p = v
	return o
}

func CompareAndSwapPointer(p *unsafe.Pointer, o, n unsafe.Pointer) bool {
	delete(lastLoad, vs.S.Cur().ID)
	vs.PointNote("atomic cas ptr %p", p)
	if *p == o {
		*p = n
		return true
	}
	return false
}
