// Stand-in for llgo's sync/atomic: sequentially consistent, every operation preceded by a scheduling point.
package atomic

import "github.com/goplus/llgo/runtime/vs"

func LoadUint32(p *uint32) uint32 { vs.PointNote("atomic load %p = %d", p, *p); return *p }
func StoreUint32(p *uint32, v uint32) { vs.PointNote("atomic store %p %d", p, v); *p = v }
func AddUint32(p *uint32, d uint32) uint32 { vs.PointNote("atomic add %p %d+%d", p, *p, d); *p += d; return *p }
func SwapUint32(p *uint32, v uint32) uint32 { vs.Point(); o := *p; *p = v; return o }
func CompareAndSwapUint32(p *uint32, o, n uint32) bool {
	vs.PointNote("atomic cas %p cur=%d old=%d new=%d", p, *p, o, n)
	if *p == o {
		*p = n
		return true
	}
	return false
}
func LoadInt32(p *int32) int32 { vs.Point(); return *p }
func StoreInt32(p *int32, v int32) { vs.Point(); *p = v }
func AddInt32(p *int32, d int32) int32 { vs.Point(); *p += d; return *p }
func CompareAndSwapInt32(p *int32, o, n int32) bool {
	vs.Point()
	if *p == o {
		*p = n
		return true
	}
	return false
}
