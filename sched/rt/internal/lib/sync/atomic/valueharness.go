package atomic

// Harness for llgo's own atomic.Value (value.go of the working tree, byte-identical copy in z_value.go): 2-3 threads of Load / Store / Swap /
// CompareAndSwap on one Value, every interleaving at atomic-operation granularity; each complete call/return history is checked for
// linearizability against a one-cell register with porcupine.

import (
	"encoding/json"
	"fmt"
	"sort"
	"strings"
	"time"

	"github.com/anishathalye/porcupine"
	"github.com/goplus/llgo/runtime/vs"
)

// VOp: K = 'l' load, 's' store A, 'w' swap in A, 'c' compare-and-swap A -> B (A == 0: old is nil). Values are ints 1..3; 0 stands for nil/empty.
type VOp struct {
	K    byte
	A, B int
}

func (o VOp) String() string {
	switch o.K {
	case 'l':
		return "Load"
	case 's':
		return fmt.Sprintf("Store(%d)", o.A)
	case 'w':
		return fmt.Sprintf("Swap(%d)", o.A)
	}
	return fmt.Sprintf("CAS(%d,%d)", o.A, o.B)
}

type VScenario struct {
	Init    int     `json:"init"` // 0: empty Value (the first-store protocol is exercised), else the value stored beforehand
	Threads [][]VOp `json:"threads"`
}

func (sc VScenario) String() string {
	var ts []string
	for _, t := range sc.Threads {
		var os []string
		for _, o := range t {
			os = append(os, o.String())
		}
		ts = append(ts, strings.Join(os, ","))
	}
	return fmt.Sprintf("init=%d %s", sc.Init, strings.Join(ts, " || "))
}

type VViol struct {
	Key      string
	What     string
	Scenario any
	Choices  []uint8
}

func box(x int) any {
	if x == 0 {
		return nil
	}
	return x
}

func unbox(v any) int {
	if v == nil {
		return 0
	}
	return v.(int) // a torn (type, data) pair faults here and is reported by the caller
}

var registerModel = porcupine.Model{
	Init: func() interface{} { return 0 },
	Step: func(state, input, output interface{}) (bool, interface{}) {
		st, in, out := state.(int), input.(VOp), output.(int)
		switch in.K {
		case 'l':
			return out == st, st
		case 's':
			return true, in.A
		case 'w':
			return out == st, in.A
		default: // CompareAndSwap(A, B): succeeds exactly when the current value equals A
			if st == in.A {
				return out == 1, in.B
			}
			return out == 0, st
		}
	},
	Equal: func(a, b interface{}) bool { return a.(int) == b.(int) },
}

var linCache = map[string]bool{}
var LinChecks, LinDistinct int64

// RunValue executes one scenario under s; returns the per-thread outputs and whether the history was linearizable.
func RunValue(sc VScenario, s *vs.Sched) (string, bool) {
	vs.S = s
	ResetSpin()
	v := new(Value)
	if sc.Init != 0 {
		v.v = sc.Init
	}
	model := registerModel
	model.Init = func() interface{} { return sc.Init }
	var events []porcupine.Event
	outs := make([][]string, len(sc.Threads))
	id := 0
	for ti, prog := range sc.Threads {
		ti, prog := ti, prog
		s.Go(func() {
			for _, op := range prog {
				my := id
				id++
				delete(lastLoad, s.Cur().ID) // a new call: its first load is not a spin iteration of the previous call
				events = append(events, porcupine.Event{ClientId: ti, Kind: porcupine.CallEvent, Value: op, Id: my})
				out := func() (out int) {
					defer func() {
						if r := recover(); r != nil {
							if fmt.Sprintf("%T", r) == "vs.abortT" {
								panic(r)
							}
							s.Fail("%s by thread %d faulted: %v (a torn type/data pair, or an operation the API must not panic on)", op, ti, r)
							out = -99
						}
					}()
					switch op.K {
					case 'l':
						return unbox(v.Load())
					case 's':
						v.Store(box(op.A))
						return 0
					case 'w':
						return unbox(v.Swap(box(op.A)))
					default:
						if v.CompareAndSwap(box(op.A), box(op.B)) {
							return 1
						}
						return 0
					}
				}()
				events = append(events, porcupine.Event{ClientId: ti, Kind: porcupine.ReturnEvent, Value: out, Id: my})
				outs[ti] = append(outs[ti], fmt.Sprint(out))
			}
		})
	}
	s.Run()
	var ts []string
	for _, o := range outs {
		ts = append(ts, strings.Join(o, ","))
	}
	outcome := strings.Join(ts, " | ") + fmt.Sprintf(" final=%d", func() int {
		defer func() { recover() }()
		return unbox(v.v)
	}())
	if s.Failure != "" || s.Horizon || s.Deadlock {
		return outcome, true
	}
	// linearizability of the complete history (memoised by the event sequence: many schedules produce the same history)
	var kb strings.Builder
	for _, e := range events {
		fmt.Fprintf(&kb, "%d%d:%v;", e.Kind, e.Id, e.Value)
	}
	// the final content is observed by one more Load after everything returned
	fin := len(sc.Threads)
	events = append(events, porcupine.Event{ClientId: fin, Kind: porcupine.CallEvent, Value: VOp{K: 'l'}, Id: id},
		porcupine.Event{ClientId: fin, Kind: porcupine.ReturnEvent, Value: unbox(v.v), Id: id})
	fmt.Fprintf(&kb, "F%d", unbox(v.v))
	k := kb.String()
	ok, hit := linCache[k]
	LinChecks++
	if !hit {
		ok = porcupine.CheckEvents(model, events)
		linCache[k] = ok
		LinDistinct++
	}
	return outcome, ok
}

var valueAlpha = []VOp{{K: 'l'}, {K: 's', A: 1}, {K: 's', A: 2}, {K: 'w', A: 1}, {K: 'w', A: 2}, {K: 'c', A: 0, B: 1}, {K: 'c', A: 1, B: 2}, {K: 'c', A: 2, B: 1}}
var valueAlphaSmall = []VOp{{K: 'l'}, {K: 's', A: 1}, {K: 'w', A: 2}, {K: 'c', A: 0, B: 1}, {K: 'c', A: 1, B: 2}}

func vprogs(alpha []VOp, maxOps int) [][]VOp {
	var res [][]VOp
	var rec func(cur []VOp)
	rec = func(cur []VOp) {
		if len(cur) > 0 {
			res = append(res, append([]VOp{}, cur...))
		}
		if len(cur) == maxOps {
			return
		}
		for _, o := range alpha {
			rec(append(cur, o))
		}
	}
	rec(nil)
	return res
}

func mutates(p []VOp) bool {
	for _, o := range p {
		if o.K != 'l' {
			return true
		}
	}
	return false
}

// ValueFamily: v2 = 2 threads x <=2 ops; v3 = 3 threads x 1 op; v3x = 3 threads x <=2 ops over the smaller alphabet; v2x = 2 threads x <=3 ops (small alphabet).
// Scenarios are multisets of thread programs (thread permutation removed) with at least one mutating thread, from an empty and from a pre-stored Value.
func ValueFamily(name string) []VScenario {
	var ps [][]VOp
	k := 2
	switch name {
	case "v2":
		ps = vprogs(valueAlpha, 2)
	case "v3":
		ps, k = vprogs(valueAlpha, 1), 3
	case "v3x":
		ps, k = vprogs(valueAlphaSmall, 2), 3
	case "v2x":
		ps = vprogs(valueAlphaSmall, 3)
	default:
		panic("unknown value family " + name)
	}
	var scs []VScenario
	var rec func(start int, cur [][]VOp)
	rec = func(start int, cur [][]VOp) {
		if len(cur) == k {
			any := false
			for _, p := range cur {
				any = any || mutates(p)
			}
			if any {
				for _, init := range []int{0, 1} {
					scs = append(scs, VScenario{Init: init, Threads: append([][]VOp{}, cur...)})
				}
			}
			return
		}
		for i := start; i < len(ps); i++ {
			rec(i, append(cur, ps[i]))
		}
	}
	rec(0, nil)
	return scs
}

func RunValueFamily(name string, shard, nshards int, b vs.Bounds, deadline time.Time,
	report func(scen int, execs, points, dead, horiz int64, nout int, capped bool, depth int, sample string, v *VViol), timedOut func()) {
	for i, sc := range ValueFamily(name) {
		if i%nshards != shard {
			continue
		}
		if time.Now().After(deadline) {
			timedOut()
			return
		}
		seen := map[string]bool{}
		var bad string
		st, failing := vs.Explore(b, func(s *vs.Sched) bool {
			out, lin := RunValue(sc, s)
			switch {
			case s.Failure != "":
				bad = s.Failure
			case s.Horizon:
				bad = "no progress within the horizon (a spin loop that nothing ends)"
			case s.Deadlock:
				bad = "threads blocked for ever"
			case !lin:
				bad = fmt.Sprintf("history with results [%s] is not linearizable against a register", out)
			}
			if bad != "" {
				return false
			}
			seen[out] = true
			return !time.Now().After(deadline)
		})
		if failing != nil && bad == "" {
			timedOut()
			failing = nil
		}
		var v *VViol
		if failing != nil {
			v = &VViol{Key: "value:" + sc.String() + " => " + bad, What: bad + " :: scenario " + sc.String(), Scenario: sc, Choices: failing}
		}
		sample := ""
		if len(seen) > 1 {
			var ks []string
			for k := range seen {
				ks = append(ks, k)
			}
			sort.Strings(ks)
			sample = fmt.Sprintf("%s -> %d schedules, results %v", sc.String(), st.Execs, ks)
		}
		report(1, st.Execs, st.Points, st.Deadlocks, st.Horizons, len(seen), st.Capped, st.MaxDepth, sample, v)
	}
}

func ReplayValue(scenarioJSON []byte, choices []uint8, spur int, verbose bool) string {
	var sc VScenario
	if err := json.Unmarshal(scenarioJSON, &sc); err != nil {
		panic(err)
	}
	s := vs.New(choices, spur)
	s.Verbose = verbose
	o, lin := RunValue(sc, s)
	if verbose {
		fmt.Println(strings.Join(s.Log, "\n"))
	}
	return fmt.Sprintf("results [%s] linearizable=%v failure=%q horizon=%v deadlock=%v", o, lin, s.Failure, s.Horizon, s.Deadlock)
}
