package runtime

func throw(s string) { panic("throw: " + s) }
func fatal(s string) { panic("fatal: " + s) }

var verifNano int64

func runtimeNano() int64 { return verifNano }
