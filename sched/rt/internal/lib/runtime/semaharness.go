package runtime

// C11 harness A/B: the real semaphore and notify-list code (copy of sema_llgo.go taken from the working tree)
// under the controlled scheduler, checked against reference LTSs.

import (
	"encoding/json"
	"fmt"
	"sort"
	"strconv"
	"strings"
	"time"

	psync "github.com/goplus/llgo/runtime/internal/clite/pthread/sync"
	"github.com/goplus/llgo/runtime/vs"
)

type Viol struct {
	Key      string
	What     string
	Scenario any
	Choices  []uint8
}

// SOp: sema mode: K 'A' acquire / 'R' release on semaphore I. notify mode: 'a' add, 'w' wait(last ticket), '1' NotifyOne, '*' NotifyAll.
type SOp struct {
	K byte
	I int
}

type SScenario struct {
	Init    []uint32 // initial semaphore values (sema mode)
	Threads [][]SOp
}

func (sc SScenario) String() string {
	var ts []string
	for _, t := range sc.Threads {
		var os []string
		for _, o := range t {
			os = append(os, string(o.K)+strconv.Itoa(o.I))
		}
		ts = append(ts, strings.Join(os, ","))
	}
	return fmt.Sprintf("init=%v %s", sc.Init, strings.Join(ts, " || "))
}

func resetGlobals() {
	semaOnce = psync.Once{}
	semaMap = nil
	semaMu = psync.Mutex{}
	notifyOnce = psync.Once{}
	notifyMap = nil
	notifyMu = psync.Mutex{}
}

// ---------------------------------------------------------------- reference LTSs

func refOutcomes(mode string, sc SScenario) map[string]bool {
	nt := len(sc.Threads)
	type st struct {
		pc      []int
		vals    []uint32 // sema values, or [wait, notify]
		tickets []int64
	}
	out := map[string]bool{}
	seen := map[string]bool{}
	var dfs func(s st)
	dfs = func(s st) {
		k := fmt.Sprint(s.pc, s.vals, s.tickets)
		if seen[k] {
			return
		}
		seen[k] = true
		moved := false
		for t := 0; t < nt; t++ {
			if s.pc[t] >= len(sc.Threads[t]) {
				continue
			}
			op := sc.Threads[t][s.pc[t]]
			n := st{append([]int{}, s.pc...), append([]uint32{}, s.vals...), append([]int64{}, s.tickets...)}
			switch op.K {
			case 'A':
				if s.vals[op.I] == 0 {
					continue
				}
				n.vals[op.I]--
			case 'R':
				n.vals[op.I]++
			case 'a':
				n.tickets[t] = int64(s.vals[0])
				n.vals[0]++
			case 'w':
				if !(int64(s.vals[1]) > s.tickets[t]) {
					continue // the ticket is not covered by a notification yet
				}
			case '1':
				if s.vals[1] != s.vals[0] {
					n.vals[1]++
				}
			case '*':
				n.vals[1] = s.vals[0]
			}
			n.pc[t]++
			moved = true
			dfs(n)
		}
		if !moved {
			out[outcomeStr(sc, s.pc, s.vals)] = true
		}
	}
	init := st{make([]int, nt), append([]uint32{}, sc.Init...), make([]int64, nt)}
	if mode == "notify" {
		init.vals = []uint32{0, 0}
	}
	dfs(init)
	return out
}

func outcomeStr(sc SScenario, pc []int, vals []uint32) string {
	var parts []string
	for t := range sc.Threads {
		if pc[t] >= len(sc.Threads[t]) {
			parts = append(parts, "D")
		} else {
			parts = append(parts, "B"+strconv.Itoa(pc[t]))
		}
	}
	return strings.Join(parts, "|") + fmt.Sprint(" vals=", vals)
}

// ---------------------------------------------------------------- implementation run

func runImpl(mode string, sc SScenario, s *vs.Sched) string {
	resetGlobals()
	nt := len(sc.Threads)
	pc := make([]int, nt)
	sems := make([]uint32, len(sc.Init))
	copy(sems, sc.Init)
	nl := &notifyList{}
	for t := 0; t < nt; t++ {
		t := t
		s.Go(func() {
			var ticket uint32
			for k, op := range sc.Threads[t] {
				pc[t] = k
				switch op.K {
				case 'A':
					semaAcquire(&sems[op.I])
				case 'R':
					semaRelease(&sems[op.I])
				case 'a':
					ticket = sync_runtime_notifyListAdd(nl)
				case 'w':
					sync_runtime_notifyListWait(nl, ticket)
				case '1':
					sync_runtime_notifyListNotifyOne(nl)
				case '*':
					sync_runtime_notifyListNotifyAll(nl)
				}
				pc[t] = k + 1
			}
		})
	}
	s.Run()
	vals := sems
	if mode == "notify" {
		vals = []uint32{nl.wait, nl.notify}
	}
	return outcomeStr(sc, pc, vals)
}

// ---------------------------------------------------------------- families

func sprogs(alpha []SOp, maxOps int) [][]SOp {
	var res [][]SOp
	var rec func(cur []SOp)
	rec = func(cur []SOp) {
		if len(cur) > 0 {
			res = append(res, append([]SOp{}, cur...))
		}
		if len(cur) == maxOps {
			return
		}
		for _, o := range alpha {
			rec(append(cur, o))
		}
	}
	rec(nil)
	return res
}

func multisets(ps [][]SOp, k int, emit func(th [][]SOp)) {
	var rec func(start int, cur [][]SOp)
	rec = func(start int, cur [][]SOp) {
		if len(cur) == k {
			emit(append([][]SOp{}, cur...))
			return
		}
		for i := start; i < len(ps); i++ {
			rec(i, append(cur, ps[i]))
		}
	}
	rec(0, nil)
}

func family(mode, name string) []SScenario {
	var scs []SScenario
	switch mode {
	case "sema":
		nsem, nthr, maxOps := 1, 2, 3
		switch name {
		case "s1t2":
		case "s1t3":
			nthr, maxOps = 3, 2
		case "s2t2":
			nsem, maxOps = 2, 2
		case "s2t3":
			nsem, nthr, maxOps = 2, 3, 2
		case "s1t3x":
			nthr, maxOps = 3, 3
		case "s1t4":
			nthr, maxOps = 4, 1
		default:
			panic("unknown sema family " + name)
		}
		var alpha []SOp
		for i := 0; i < nsem; i++ {
			alpha = append(alpha, SOp{'A', i}, SOp{'R', i})
		}
		var inits [][]uint32
		if nsem == 1 {
			inits = [][]uint32{{0}, {1}}
		} else {
			inits = [][]uint32{{0, 0}, {0, 1}, {1, 0}, {1, 1}}
		}
		multisets(sprogs(alpha, maxOps), nthr, func(th [][]SOp) {
			for _, in := range inits {
				scs = append(scs, SScenario{Init: in, Threads: th})
			}
		})
	case "notify":
		waiter := [][]SOp{{{'a', 0}, {'w', 0}}, {{'a', 0}, {'w', 0}, {'a', 0}, {'w', 0}}}
		notif := sprogs([]SOp{{'1', 0}, {'*', 0}}, 2)
		mixed := [][]SOp{{{'a', 0}, {'1', 0}, {'w', 0}}, {{'1', 0}, {'a', 0}, {'w', 0}}}
		all := append(append(append([][]SOp{}, waiter...), notif...), mixed...)
		nthr := 3
		switch name {
		case "n2":
			nthr = 2
		case "n3":
		case "n4":
			nthr = 4
			all = append(append([][]SOp{}, waiter[:1]...), notif...)
		default:
			panic("unknown notify family " + name)
		}
		multisets(all, nthr, func(th [][]SOp) {
			hasW := false
			for _, p := range th {
				for _, o := range p {
					if o.K == 'w' {
						hasW = true
					}
				}
			}
			if hasW {
				scs = append(scs, SScenario{Threads: th})
			}
		})
	}
	return scs
}

func RunFamily(mode, name string, shard, nshards int, b vs.Bounds, deadline time.Time,
	report func(scen int, execs, points, dead, horiz int64, nout int, capped bool, depth int, sample string, v *Viol), timedOut func()) {
	for i, sc := range family(mode, name) {
		if i%nshards != shard {
			continue
		}
		if time.Now().After(deadline) {
			timedOut()
			return
		}
		ref := refOutcomes(mode, sc)
		seen := map[string]bool{}
		var bad string
		st, failing := vs.Explore(b, func(s *vs.Sched) bool {
			out := runImpl(mode, sc, s)
			if s.Failure != "" {
				bad = "failure: " + s.Failure
				return false
			}
			if s.Horizon {
				bad = "no progress within the horizon (livelock or unbounded retry)"
				return false
			}
			seen[out] = true
			if !ref[out] {
				bad = fmt.Sprintf("terminal state [%s] is not reachable in the reference %s specification; reachable: %v", out, mode, keys(ref))
				return false
			}
			return true
		})
		var v *Viol
		if failing != nil {
			v = &Viol{Key: mode + ":" + sc.String(), What: bad + " :: scenario " + sc.String(), Scenario: sc, Choices: failing}
		}
		sample := ""
		if len(seen) > 1 {
			sample = fmt.Sprintf("%s -> %d schedules, terminal states %v", sc.String(), st.Execs, keys(seen))
		}
		report(1, st.Execs, st.Points, st.Deadlocks, st.Horizons, len(seen), st.Capped, st.MaxDepth, sample, v)
	}
}

func keys(m map[string]bool) []string {
	var ks []string
	for k := range m {
		ks = append(ks, k)
	}
	sort.Strings(ks)
	return ks
}

func Replay(mode string, scenarioJSON []byte, choices []uint8, spur int, verbose bool) string {
	var sc SScenario
	if err := json.Unmarshal(scenarioJSON, &sc); err != nil {
		panic(err)
	}
	s := vs.New(choices, spur)
	s.Verbose = verbose
	o := runImpl(mode, sc, s)
	if verbose {
		fmt.Println(strings.Join(s.Log, "\n"))
	}
	ref := refOutcomes(mode, sc)
	return fmt.Sprintf("terminal [%s] failure=%q horizon=%v allowed=%v (reference terminals %v)", o, s.Failure, s.Horizon, ref[o], keys(ref))
}
