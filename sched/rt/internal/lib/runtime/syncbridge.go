package runtime

// Exported doors for the copies of the standard sync / internal/sync packages that run on top of this (real) semaphore and notify-list code
// under the controlled scheduler (C11 part C). In an llgo build these are the //go:linkname targets of sync's runtime_* declarations.

import (
	"unsafe"

	"github.com/goplus/llgo/runtime/vs"
)

func XReset()                                { resetGlobals(); verifNano = 0 }
func XSemacquire(a *uint32)                  { sync_runtime_Semacquire(a) }
func XSemacquireWaitGroup(a *uint32)         { sync_runtime_SemacquireWaitGroup(a, false) }
func XSemacquireRWMutexR(a *uint32)          { sync_runtime_SemacquireRWMutexR(a, false, 0) }
func XSemacquireRWMutex(a *uint32)           { sync_runtime_SemacquireRWMutex(a, false, 0) }
func XSemrelease(a *uint32, h bool)          { sync_runtime_Semrelease(a, h, 0) }
func XISemacquireMutex(a *uint32, lifo bool) { internal_sync_runtime_SemacquireMutex(a, lifo, 0) }
func XISemrelease(a *uint32, h bool)         { internal_sync_runtime_Semrelease(a, h, 0) }
func XCanSpin(i int) bool                    { return internal_sync_runtime_canSpin(i) }
func XDoSpin()                               { internal_sync_runtime_doSpin() }

// XNanotime: the clock the mutex consults for starvation mode. Whether more than the threshold (1ms) has passed since the last reading is an
// environment choice of the explorer (KEnv), so both the normal and the starvation protocol are explored.
func XNanotime() int64 {
	if vs.S.Choose(vs.KEnv, 2) == 1 {
		verifNano += 2e6
		vs.S.Note("clock: +2ms")
	}
	verifNano++
	return verifNano
}

func XNotifyListAdd(l unsafe.Pointer) uint32     { return sync_runtime_notifyListAdd((*notifyList)(l)) }
func XNotifyListWait(l unsafe.Pointer, t uint32) { sync_runtime_notifyListWait((*notifyList)(l), t) }
func XNotifyListNotifyAll(l unsafe.Pointer)      { sync_runtime_notifyListNotifyAll((*notifyList)(l)) }
func XNotifyListNotifyOne(l unsafe.Pointer)      { sync_runtime_notifyListNotifyOne((*notifyList)(l)) }
func XNotifyListCheck(size uintptr)              { sync_runtime_notifyListCheck(size) }
