// Stand-in for clite/pthread/sync: every operation is a scheduling point of the explorer (package vs).
package sync

import (
	c "github.com/goplus/llgo/runtime/internal/clite"
	"github.com/goplus/llgo/runtime/vs"
)

type MutexAttr struct{}
type CondAttr struct{}

type Mutex struct{ M vs.Mutex }

func (m *Mutex) Init(attr *MutexAttr) c.Int { m.M = vs.Mutex{}; return 0 }
func (m *Mutex) Destroy()                  {}
func (m *Mutex) Lock()                     { m.M.Lock() }
func (m *Mutex) Unlock()                   { m.M.Unlock() }
func (m *Mutex) TryLock() c.Int {
	if m.M.TryLock() {
		return 0
	}
	return 16 // EBUSY
}

type Cond struct{ C vs.Cond }

func (cv *Cond) Init(attr *CondAttr) c.Int { cv.C = vs.Cond{}; return 0 }
func (cv *Cond) Destroy()                 {}
func (cv *Cond) Signal() c.Int            { cv.C.Signal(); return 0 }
func (cv *Cond) Broadcast() c.Int         { cv.C.Broadcast(); return 0 }
func (cv *Cond) Wait(m *Mutex) c.Int      { cv.C.Wait(&m.M); return 0 }

type Once struct{ O vs.Once }

func (o *Once) Do(f func()) c.Int { o.O.Do(f); return 0 }
