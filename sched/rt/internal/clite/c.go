// Stand-in for github.com/goplus/llgo/runtime/internal/clite: just what the explored sources use.
package c

import "unsafe"

type (
	Pointer = unsafe.Pointer
	Int     = int32
	Char    = int8
)

type integer interface {
	~int | ~int8 | ~int16 | ~int32 | ~int64 | ~uint | ~uint8 | ~uint16 | ~uint32 | ~uint64 | ~uintptr
}

func Advance[PtrT any, I integer](ptr PtrT, offset I) PtrT {
	p := *(*unsafe.Pointer)(unsafe.Pointer(&ptr))
	p = unsafe.Add(p, int(offset))
	return *(*PtrT)(unsafe.Pointer(&p))
}

func Memcpy(dst, src Pointer, n uintptr) Pointer {
	copy(unsafe.Slice((*byte)(dst), n), unsafe.Slice((*byte)(src), n))
	return dst
}

func Memmove(dst, src Pointer, n uintptr) Pointer { return Memcpy(dst, src, n) }
