#!/bin/bash
# Bind the real runtime sources from the repository's working tree into a copy of the stand-in module (linkname directives stripped so the
# host linker does not see duplicate sync.runtime_* symbols; everything else byte-identical) and build the explorer.
set -e
REPO=${VERIF_REPO:-/repo}
B=${VERIF_BUILD:-/verif/build}
R=$B/schedrt
mkdir -p $R $B/sched
rsync -a --delete --exclude z_chan.go --exclude sema_llgo.go --exclude /fetchx/fetch.go --exclude '/isync/mutex.go' --exclude '/syncx/z_*.go' --exclude '/internal/lib/sync/atomic/z_value.go' /verif/sched/rt/ $R/
grep -v '^//go:linkname' $REPO/runtime/internal/runtime/z_chan.go > $R/internal/runtime/z_chan.go
grep -v '^//go:linkname' $REPO/runtime/internal/lib/runtime/sema_llgo.go > $R/internal/lib/runtime/sema_llgo.go
# llgo's own atomic.Value, byte-identical (it imports only unsafe and calls the package's pointer operations, which the stand-in package provides)
cp $REPO/runtime/internal/lib/sync/atomic/value.go $R/internal/lib/sync/atomic/z_value.go
# internal/crosscompile/fetch.go, byte-identical except for four import paths (os, syscall, net/http, time -> scheduler-aware stand-ins)
sed -e 's|^\t"os"$|\tos "github.com/goplus/llgo/runtime/vos"|' -e 's|^\t"syscall"$|\tsyscall "github.com/goplus/llgo/runtime/vsyscall"|' \
    -e 's|^\t"net/http"$|\thttp "github.com/goplus/llgo/runtime/vhttp"|' -e 's|^\t"time"$|\ttime "github.com/goplus/llgo/runtime/vtime"|' \
    -e 's|^package crosscompile|package fetchx|' $REPO/internal/crosscompile/fetch.go > $R/fetchx/fetch.go
. /verif/tc/env.sh
# the standard library's sync primitives as llgo compiles them (sources of the GOROOT on PATH), import paths redirected to the scheduler-aware stand-ins;
# they run on the real sema_llgo.go copied above
GR=$(go env GOROOT)
RW='s|^\t"internal/race"$|\trace "github.com/goplus/llgo/runtime/vrace"|; s|^\t"sync/atomic"$|\t"github.com/goplus/llgo/runtime/internal/lib/sync/atomic"|; s|^\tisync "internal/sync"$|\tisync "github.com/goplus/llgo/runtime/isync"|'
sed -e "$RW" -e 's|^package sync$|package isync|' $GR/src/internal/sync/mutex.go > $R/isync/mutex.go
for f in mutex rwmutex waitgroup once cond runtime2; do
  grep -v '^//go:linkname' $GR/src/sync/$f.go | sed -e "$RW" -e 's|^package sync$|package syncx|' > $R/syncx/z_$f.go
done
cd $R && go build -o $B/sched/explore ./cmd/explore && go build -o $B/sched/fetchexplore ./cmd/fetchexplore
