#!/bin/bash
# Bind the real runtime sources from /repo's working tree into the stand-in module (linkname directives stripped so the
# host linker does not see duplicate sync.runtime_* symbols; everything else byte-identical).
set -e
R=/verif/sched/rt
grep -v '^//go:linkname' /repo/runtime/internal/runtime/z_chan.go > $R/internal/runtime/z_chan.go
grep -v '^//go:linkname' /repo/runtime/internal/lib/runtime/sema_llgo.go > $R/internal/lib/runtime/sema_llgo.go
. /verif/tc/env.sh
mkdir -p /verif/build/sched
cd $R && go build -o /verif/build/sched/explore ./cmd/explore
