package targets

// Injected by /verif (C18): exhaustive inheritance forests vs an independent resolver over the raw JSON.

import (
	"encoding/json"
	"fmt"
	"os"
	"os/exec"
	"path/filepath"
	"reflect"
	"runtime/debug"
	"sort"
	"strconv"
	"strings"
	"sync"
	"testing"
)

type vres struct {
	Name        string           `json:"name"`
	Evaluations int              `json:"evaluations"`
	Nontrivial  int              `json:"distinct_nontrivial"`
	Violations  []map[string]any `json:"violations"`
	Samples     []any            `json:"samples"`
	Exhaustive  bool             `json:"exhaustive"`
	Extra       map[string]any   `json:"extra"`
	mu          sync.Mutex
}

func (r *vres) viol(key, what string, replay any) {
	r.mu.Lock()
	defer r.mu.Unlock()
	if len(r.Violations) < 60 {
		r.Violations = append(r.Violations, map[string]any{"key": key, "what": what, "replay": replay})
	}
}

func venvInt(name string, def int) int {
	if v, err := strconv.Atoi(os.Getenv(name)); err == nil {
		return v
	}
	return def
}

// ---- field discovery by reflection: every JSON-visible field of Config
type vfield struct {
	idx  int
	json string
	kind reflect.Kind // String, Slice, Bool
}

func vfields(t *testing.T) []vfield {
	var fs []vfield
	ct := reflect.TypeOf(Config{})
	for i := 0; i < ct.NumField(); i++ {
		f := ct.Field(i)
		tag := strings.Split(f.Tag.Get("json"), ",")[0]
		if tag == "-" || tag == "" {
			continue
		}
		switch f.Type.Kind() {
		case reflect.String, reflect.Bool:
		case reflect.Slice:
			if f.Type.Elem().Kind() != reflect.String {
				t.Fatalf("harness: unsupported field type %v for %s", f.Type, f.Name)
			}
		default:
			t.Fatalf("harness: unsupported field type %v for %s", f.Type, f.Name)
		}
		fs = append(fs, vfield{i, tag, f.Type.Kind()})
	}
	return fs
}

// forest: node i has parents par[i] (indices; n = missing description)
type forest struct {
	N   int
	Par [][]int
}

func nodeName(i, n int) string {
	if i >= n {
		return "missing"
	}
	return "n" + strconv.Itoa(i)
}

func (f forest) String() string {
	var sb strings.Builder
	for i := 0; i < f.N; i++ {
		fmt.Fprintf(&sb, "n%d<-[", i)
		for j, p := range f.Par[i] {
			if j > 0 {
				sb.WriteString(",")
			}
			sb.WriteString(nodeName(p, f.N))
		}
		sb.WriteString("] ")
	}
	return strings.TrimSpace(sb.String())
}

// raw description of node i under define-pattern pat (bit i set: node i defines the fields)
func rawJSON(f forest, i int, pat func(fi int) int, fs []vfield) map[string]any {
	m := map[string]any{}
	if len(f.Par[i]) > 0 {
		var ps []string
		for _, p := range f.Par[i] {
			ps = append(ps, nodeName(p, f.N))
		}
		m["inherits"] = ps
	}
	for fi, fd := range fs {
		if pat(fi)&(1<<i) == 0 {
			continue
		}
		switch fd.kind {
		case reflect.String:
			m[fd.json] = fmt.Sprintf("n%d.%s", i, fd.json)
		case reflect.Bool:
			m[fd.json] = true
		case reflect.Slice:
			// list lengths differ per node (3,1,5,2,...): decoded slices then have spare capacity in some nodes and none in others
			var l []string
			for k := 0; k < []int{3, 1, 5, 2, 6}[i%5]; k++ {
				l = append(l, fmt.Sprintf("n%d.%s.%d", i, fd.json, k))
			}
			m[fd.json] = l
		}
	}
	return m
}

// reference resolver on raw JSON maps: status "ok", "missing", "cycle"
type refResult struct {
	status string
	vals   map[string]any // json name -> string | bool | []string
}

func refResolve(raws map[string]map[string]any, name string, stack map[string]bool) refResult {
	raw, ok := raws[name]
	if !ok {
		return refResult{status: "missing"}
	}
	if stack[name] {
		return refResult{status: "cycle"}
	}
	stack[name] = true
	defer delete(stack, name)
	res := map[string]any{}
	merge := func(src map[string]any) {
		for k, v := range src {
			if k == "inherits" {
				continue
			}
			switch x := v.(type) {
			case string:
				if x != "" {
					res[k] = x
				}
			case bool:
				if x {
					res[k] = true
				}
			case []string:
				if len(x) > 0 {
					old, _ := res[k].([]string)
					res[k] = append(append([]string{}, old...), x...)
				}
			}
		}
	}
	if inh, ok := raw["inherits"].([]string); ok {
		for _, p := range inh {
			pr := refResolve(raws, p, stack)
			if pr.status != "ok" {
				return pr
			}
			merge(pr.vals)
		}
	}
	merge(raw)
	return refResult{"ok", res}
}

func configVals(c *Config, fs []vfield) map[string]any {
	m := map[string]any{}
	v := reflect.ValueOf(*c)
	for _, fd := range fs {
		fv := v.Field(fd.idx)
		switch fd.kind {
		case reflect.String:
			if fv.String() != "" {
				m[fd.json] = fv.String()
			}
		case reflect.Bool:
			if fv.Bool() {
				m[fd.json] = true
			}
		case reflect.Slice:
			if fv.Len() > 0 {
				m[fd.json] = append([]string{}, fv.Interface().([]string)...)
			}
		}
	}
	return m
}

func writeForest(dir string, raws map[string]map[string]any) error {
	if err := os.MkdirAll(dir, 0o755); err != nil {
		return err
	}
	for name, raw := range raws {
		b, _ := json.Marshal(raw)
		if err := os.WriteFile(filepath.Join(dir, name+".json"), b, 0o644); err != nil {
			return err
		}
	}
	return nil
}

func parentChoices(n int, maxPar int) [][]int {
	res := [][]int{nil}
	for a := 0; a <= n; a++ {
		res = append(res, []int{a})
	}
	if maxPar >= 2 {
		for a := 0; a <= n; a++ {
			for b := 0; b <= n; b++ {
				res = append(res, []int{a, b})
			}
		}
	}
	return res
}

func enumForests(n int, fn func(f forest)) {
	ch := parentChoices(n, 2)
	idx := make([]int, n)
	for {
		f := forest{N: n, Par: make([][]int, n)}
		for i := 0; i < n; i++ {
			f.Par[i] = ch[idx[i]]
		}
		fn(f)
		k := 0
		for k < n {
			idx[k]++
			if idx[k] < len(ch) {
				break
			}
			idx[k] = 0
			k++
		}
		if k == n {
			return
		}
	}
}

type vcase struct {
	F   forest
	Pat int // -1: rotating pattern keyed by Rot
	Rot int
}

func (c vcase) pat(fi int, n int) int {
	if c.Pat >= 0 {
		return c.Pat
	}
	return (fi*5 + c.Rot) % (1 << n)
}

func (c vcase) raws(fs []vfield) map[string]map[string]any {
	raws := map[string]map[string]any{}
	for i := 0; i < c.F.N; i++ {
		raws[nodeName(i, c.F.N)] = rawJSON(c.F, i, func(fi int) int { return c.pat(fi, c.F.N) }, fs)
	}
	return raws
}

// runCase loads every node of the forest through the real Loader and compares with the reference.
// Returns a description of the first mismatch or "".
func runCase(dir string, c vcase, fs []vfield, onlyStatus string) (string, string) {
	raws := c.raws(fs)
	dir = filepath.Join(dir, strconv.Itoa(len(raws))) // file names are n0..n<k-1>: one directory per forest size, files overwritten
	if err := writeForest(dir, raws); err != nil {
		return "harness", err.Error()
	}
	names := make([]string, 0, len(raws))
	for k := range raws {
		names = append(names, k)
	}
	sort.Strings(names)
	// pass 0: cold cache per node. pass 1: one warm loader, every node loaded (reverse order) BEFORE anything is
	// compared, so a later Load that scribbles over an earlier result is seen. pass 2: LoadAll when every node is fine.
	warm := NewLoader(dir)
	type lres struct {
		c   *Config
		err error
	}
	for pass := 0; pass < 3; pass++ {
		order := names
		got := map[string]lres{}
		switch pass {
		case 1:
			order = append([]string{}, names...)
			sort.Sort(sort.Reverse(sort.StringSlice(order)))
			for _, name := range order {
				want := refResolve(raws, name, map[string]bool{})
				if onlyStatus != "" && ((onlyStatus == "ok") != (want.status == "ok")) {
					continue
				}
				c, err := warm.Load(name)
				got[name] = lres{c, err}
			}
		case 2:
			allOK := true
			for _, name := range names {
				if refResolve(raws, name, map[string]bool{}).status != "ok" {
					allOK = false
				}
			}
			if !allOK || onlyStatus == "bad" {
				continue
			}
			all, err := NewLoader(dir).LoadAll()
			if err != nil {
				return "loadall", fmt.Sprintf("LoadAll failed: %v", err)
			}
			for _, name := range names {
				got[name] = lres{all[name], nil}
				if all[name] == nil {
					return "loadall:" + name, "LoadAll result lacks " + name
				}
			}
		}
		for _, name := range order {
			want := refResolve(raws, name, map[string]bool{})
			if onlyStatus != "" && ((onlyStatus == "ok") != (want.status == "ok")) {
				continue
			}
			var g lres
			if pass == 0 {
				c, err := NewLoader(dir).Load(name)
				g = lres{c, err}
			} else {
				g = got[name]
			}
			got, err := g.c, g.err
			if want.status != "ok" {
				if err == nil {
					return "noerror:" + name, fmt.Sprintf("Load(%s) returned a configuration but the inheritance graph has a %s parent", name, want.status)
				}
				continue
			}
			if err != nil {
				return "error:" + name, fmt.Sprintf("Load(%s) failed: %v", name, err)
			}
			if got.Name != name {
				return "name:" + name, fmt.Sprintf("Load(%s).Name=%q", name, got.Name)
			}
			gv := configVals(got, fs)
			if !reflect.DeepEqual(gv, want.vals) {
				var diffs []string
				for _, fd := range fs {
					if !reflect.DeepEqual(gv[fd.json], want.vals[fd.json]) {
						diffs = append(diffs, fmt.Sprintf("%s: got %v want %v", fd.json, gv[fd.json], want.vals[fd.json]))
					}
				}
				return "merge:" + name + fmt.Sprintf(":pass%d", pass), fmt.Sprintf("Load(%s) (pass %d) differs from reference: %s", name, pass, strings.Join(diffs[:min(3, len(diffs))], "; "))
			}
		}
	}
	return "", ""
}

func hasBadParent(c vcase, fs []vfield) bool {
	raws := c.raws(fs)
	for name := range raws {
		if refResolve(raws, name, map[string]bool{}).status != "ok" {
			return true
		}
	}
	return false
}

// Child mode: resolve the forests with a missing/cyclic parent listed in $VERIF_CHILD_IN, logging progress,
// with a small stack limit so unbounded recursion dies fast instead of eating memory.
func TestVerifTargetsChild(t *testing.T) {
	in := os.Getenv("VERIF_CHILD_IN")
	if in == "" {
		t.Skip()
	}
	debug.SetMaxStack(16 << 20)
	fs := vfields(t)
	var cases []vcase
	b, _ := os.ReadFile(in)
	if err := json.Unmarshal(b, &cases); err != nil {
		t.Fatal(err)
	}
	start := venvInt("VERIF_CHILD_START", 0)
	prog, _ := os.OpenFile(os.Getenv("VERIF_CHILD_PROGRESS"), os.O_CREATE|os.O_WRONLY|os.O_APPEND, 0o644)
	dir := filepath.Join(t.TempDir(), "f")
	for i := start; i < len(cases); i++ {
		fmt.Fprintf(prog, "start %d\n", i)
		key, what := runCase(dir, cases[i], fs, "bad")
		if key != "" {
			fmt.Fprintf(prog, "viol %d %s\t%s\n", i, key, what)
		}
		fmt.Fprintf(prog, "done %d\n", i)
	}
}

func TestVerifTargets(t *testing.T) {
	fs := vfields(t)
	nFull := venvInt("VERIF_NFULL", 3) // forests with <= nFull nodes: full product forest x define-pattern
	nRot := venvInt("VERIF_NROT", 0)   // forests with nRot nodes: rotating patterns
	r := &vres{Name: "targets.forests", Exhaustive: true, Extra: map[string]any{"fields": len(fs), "n_full": nFull, "n_rot": nRot}}
	var okCases, badCases []vcase
	for n := 1; n <= nFull; n++ {
		enumForests(n, func(f forest) {
			for pat := 0; pat < 1<<n; pat++ {
				c := vcase{F: f, Pat: pat}
				if pat == (1<<n)-1 && hasBadParent(c, fs) {
					badCases = append(badCases, c)
				}
				okCases = append(okCases, c)
			}
		})
	}
	if nRot > nFull {
		k := 0
		enumForests(nRot, func(f forest) {
			c := vcase{F: f, Pat: -1, Rot: k}
			k++
			if hasBadParent(c, fs) {
				if k%7 == 0 {
					badCases = append(badCases, c)
				}
			}
			okCases = append(okCases, c)
		})
	}
	r.Extra["forest_cases"] = len(okCases)
	r.Extra["cases_with_missing_or_cyclic_parent"] = len(badCases)
	// 1. acyclic parts in-process, in parallel
	var wg sync.WaitGroup
	var mu sync.Mutex
	distinct := map[string]bool{}
	evals := 0
	nw := 16
	base := t.TempDir()
	for w := 0; w < nw; w++ {
		wg.Add(1)
		go func(w int) {
			defer wg.Done()
			dir := filepath.Join(base, fmt.Sprintf("w%d", w))
			ld := map[string]bool{}
			ev := 0
			for i := w; i < len(okCases); i += nw {
				c := okCases[i]
				key, what := runCase(dir, c, fs, "ok")
				ev++
				if key != "" {
					r.viol(fmt.Sprintf("%s|%s|pat=%d", c.F, key, c.Pat), what+" :: forest "+c.F.String(), c)
				}
				if c.F.N > 1 {
					for _, p := range c.F.Par {
						if len(p) > 0 {
							ld[c.F.String()] = true
							break
						}
					}
				}
			}
			mu.Lock()
			evals += ev
			for k := range ld {
				distinct[k] = true
			}
			mu.Unlock()
		}(w)
	}
	wg.Wait()
	r.Evaluations += evals
	r.Nontrivial = len(distinct)
	// 2. missing / cyclic parents in a child process (a crash or hang is observed, not suffered)
	if len(badCases) > 0 {
		in := filepath.Join(base, "bad.json")
		b, _ := json.Marshal(badCases)
		os.WriteFile(in, b, 0o644)
		progf := filepath.Join(base, "progress")
		start, crashes := 0, 0
		for start < len(badCases) && crashes < 8 {
			cmd := exec.Command(os.Args[0], "-test.run", "^TestVerifTargetsChild$", "-test.timeout", "300s")
			cmd.Env = append(os.Environ(), "VERIF_CHILD_IN="+in, "VERIF_CHILD_PROGRESS="+progf, "VERIF_CHILD_START="+strconv.Itoa(start), "VERIF_OUT=")
			out, err := cmd.CombinedOutput()
			pb, _ := os.ReadFile(progf)
			last, lastDone := -1, -1
			for _, ln := range strings.Split(string(pb), "\n") {
				var k int
				if n, _ := fmt.Sscanf(ln, "start %d", &k); n == 1 {
					last = k
				} else if n, _ := fmt.Sscanf(ln, "done %d", &k); n == 1 {
					lastDone = k
				}
			}
			if err == nil {
				start = len(badCases)
				break
			}
			if last > lastDone {
				crashes++
				c := badCases[last]
				tail := string(out)
				if len(tail) > 300 {
					tail = tail[:300]
				}
				r.viol(fmt.Sprintf("%s|crash", c.F), fmt.Sprintf("resolving forest %s (missing/cyclic parent) crashed or hung the process instead of returning an error: %s", c.F, strings.ReplaceAll(tail, "\n", " | ")), c)
				start = last + 1
			} else {
				t.Fatalf("harness: child failed without a case in flight: %v\n%s", err, out)
			}
		}
		pb, _ := os.ReadFile(progf)
		for _, ln := range strings.Split(string(pb), "\n") {
			if strings.HasPrefix(ln, "viol ") {
				parts := strings.SplitN(ln[5:], " ", 2)
				k, _ := strconv.Atoi(parts[0])
				kw := strings.SplitN(parts[1], "\t", 2)
				r.viol(fmt.Sprintf("%s|%s", badCases[k].F, kw[0]), kw[1]+" :: forest "+badCases[k].F.String(), badCases[k])
			}
		}
		r.Evaluations += start
		if start < len(badCases) {
			r.Exhaustive = false
			r.Extra["bad_parent_cases_completed"] = start
		}
	}
	r.Samples = []any{okCases[len(okCases)/2].F.String(), okCases[len(okCases)-1].F.String()}

	// 3. shipped targets: resolve without error, equal to the reference on the raw JSON, independent of load order
	s := &vres{Name: "targets.shipped", Exhaustive: true, Extra: map[string]any{}}
	tdir, _ := filepath.Abs("../../targets")
	ents, err := os.ReadDir(tdir)
	if err != nil {
		t.Fatal(err)
	}
	raws := map[string]map[string]any{}
	for _, e := range ents {
		if !strings.HasSuffix(e.Name(), ".json") {
			continue
		}
		b, _ := os.ReadFile(filepath.Join(tdir, e.Name()))
		var g map[string]any
		if err := json.Unmarshal(b, &g); err != nil {
			s.viol("shipped-json:"+e.Name(), err.Error(), e.Name())
			continue
		}
		m := map[string]any{}
		known := map[string]bool{"inherits": true}
		for _, fd := range fs {
			known[fd.json] = true
		}
		for k, v := range g {
			if !known[k] {
				continue // keys the Config struct does not model are outside the property
			}
			switch x := v.(type) {
			case []any:
				var ss []string
				for _, e := range x {
					ss = append(ss, fmt.Sprint(e))
				}
				m[k] = ss
			default:
				m[k] = x
			}
		}
		raws[strings.TrimSuffix(e.Name(), ".json")] = m
	}
	var names []string
	for k := range raws {
		names = append(names, k)
	}
	sort.Strings(names)
	inheritsN := 0
	for pass := 0; pass < 4; pass++ {
		order := append([]string{}, names...)
		if pass == 2 {
			sort.Sort(sort.Reverse(sort.StringSlice(order)))
		}
		type lres struct {
			c   *Config
			err error
		}
		got := map[string]lres{}
		switch pass {
		case 1, 2: // one warm loader; everything is loaded before anything is compared
			l := NewLoader(tdir)
			for _, name := range order {
				c, err := l.Load(name)
				got[name] = lres{c, err}
			}
		case 3:
			all, err := NewResolver(tdir).ResolveAll()
			if err != nil {
				s.viol("shipped-resolveall", fmt.Sprintf("ResolveAll: %v", err), nil)
				continue
			}
			for _, name := range order {
				got[name] = lres{all[name], nil}
			}
		}
		for _, name := range order {
			s.Evaluations++
			want := refResolve(raws, name, map[string]bool{})
			g := got[name]
			if pass == 0 {
				c, err := NewLoader(tdir).Load(name)
				g = lres{c, err}
			}
			if want.status != "ok" {
				s.viol("shipped-bad:"+name, fmt.Sprintf("shipped target %s has a %s parent", name, want.status), name)
				continue
			}
			if g.err != nil || g.c == nil {
				s.viol("shipped-err:"+name, fmt.Sprintf("Load(%s): %v", name, g.err), name)
				continue
			}
			if gv := configVals(g.c, fs); !reflect.DeepEqual(gv, want.vals) || g.c.Name != name {
				s.viol(fmt.Sprintf("shipped-merge:%s:pass%d", name, pass), fmt.Sprintf("shipped target %s (pass %d): got %v want %v", name, pass, gv, want.vals), name)
			}
			if pass == 0 {
				if _, ok := raws[name]["inherits"]; ok {
					inheritsN++
				}
			}
		}
	}
	s.Nontrivial = inheritsN
	s.Extra["targets"] = len(names)
	s.Samples = []any{names[0], names[len(names)/2]}
	if p := os.Getenv("VERIF_OUT"); p != "" {
		b, _ := json.Marshal([]*vres{r, s})
		os.WriteFile(p, b, 0o644)
	}
}
