#!/usr/bin/env python3
"""C18: all inheritance forests (<=3 nodes full product with define-patterns; 4 nodes thorough) through the real
Loader vs an independent resolver on the raw JSON; missing/cyclic parents in a child process; all shipped targets."""
import argparse, json, os, sys
sys.path.insert(0, "/verif/lib")
from common import *
HERE = os.path.dirname(os.path.abspath(__file__))
ap = argparse.ArgumentParser()
ap.add_argument("--id", default="C18"); ap.add_argument("--tier", default=os.environ.get("VERIF_TIER", "quick")); ap.add_argument("--replay")
a = ap.parse_args()
thorough = a.tier == "thorough"
rep = Report("C18", a.tier, "model_checking")
work = workdir("C18")
out = os.path.join(work, "out.json")
if os.path.exists(out): os.remove(out)
env = {"VERIF_OUT": out, "VERIF_NFULL": "3", "VERIF_NROT": "4" if thorough else "0", "TMPDIR": work}
r = go_test_overlay("internal/targets", {"zz_targets_verif_test.go": os.path.join(HERE, "targets_verif_test.go")}, "^TestVerifTargets$", env_extra=env, timeout=3000)
if r.returncode != 0 or not os.path.exists(out):
    rep.violation("harness", "injected test did not complete:\n" + r.stdout[-3000:] + r.stderr[-2000:])
    rep.coverage.update(states=1, transitions=1, traces_validated_against_impl=0, samples=["(none)"], exhaustive=False)
    rep.finish()
res = json.load(open(out))
ev = nt = 0
samples = []
exh = True
subs = {}
for sub in res:
    ev += sub["evaluations"]; nt += sub["distinct_nontrivial"]; exh = exh and sub["exhaustive"]
    subs[sub["name"]] = {k: sub[k] for k in ("evaluations", "distinct_nontrivial", "extra", "exhaustive")}
    samples += sub["samples"]
    for v in sub["violations"] or []:
        rep.violation(v["key"], v["what"], v.get("replay"))
f = subs["targets.forests"]
rep.coverage.update(
    states=f["extra"]["forest_cases"], transitions=ev, traces_validated_against_impl=ev,
    evaluations=ev, distinct_nontrivial=nt, exhaustive=exh, samples=samples, sub_checks=subs,
    rule="state = (inheritance forest on n descriptions with <=2 ordered parents each incl. self, cycles and a missing name) x (which nodes define the fields); "
         "every node of every forest is loaded through the real Loader with a cold and with a warm cache (both directions) and compared field by field "
         "(all fields of Config found by reflection) with an independent resolver on the raw JSON; transitions = Load calls compared")
rep.assumptions += ["a field counts as 'defined' when it has a non-zero value (JSON false/\"\" cannot be told from absent by the Config struct)",
                    "diamond inheritance repeats a shared ancestor's list items (recursive definition), as the reference resolver does too"]
rep.finish()
