"""C12 sub-check: packages whose variable initialisers and init functions call Python. The same program is built twice: for the reference toolchain
sq() is math.Sqrt, for llgo sq() calls Python's math.sqrt through github.com/goplus/lib/py. The ordered initialisation trace must be the same."""
import os, sys
sys.path.insert(0, "/verif/lib")
from prelude import PRELUDE

TR = 'package tr\n\nvar T []string\n\nfunc Add(s string) int {\n\tT = append(T, s)\n\treturn len(T)\n}\n'

SQ_GO = 'import "math"\n\nfunc sq(x float64) float64 { return math.Sqrt(x) }\n'
SQ_PY = 'import (\n\t"github.com/goplus/lib/py"\n\tpymath "github.com/goplus/lib/py/math"\n)\n\nfunc sq(x float64) float64 { return pymath.Sqrt(py.Float(x)).Float64() }\n'


def itoa_src(pkg):
    return "package %s\n\nfunc itoa(v int) string {\n\tif v == 0 {\n\t\treturn \"0\"\n\t}\n\ts := \"\"\n\tfor v > 0 {\n\t\ts = string(rune('0'+v%%10)) + s\n\t\tv /= 10\n\t}\n\treturn s\n}\n" % pkg


def lib(name, deps, k):
    imp = "import (\n\t\"vt/tr\"\n" + "".join("\t\"vt/%s\"\n" % d for d in deps) + ")\n"
    use = "".join(" + %s.F(\"%s\")" % (d, name) for d in deps)
    src = "package %s\n\n%s\n" % (name, imp)
    src += "var V1 = tr.Add(\"%s.V1=\" + itoa(int(sq(%d))+V2))%s\n" % (name, k * k, use)
    src += "var V2 = tr.Add(\"%s.V2=\" + itoa(int(sq(%d))))\n" % (name, (k + 1) * (k + 1))
    src += "func init() { tr.Add(\"%s.init=\" + itoa(int(sq(%d)))) }\n" % (name, (k + 2) * (k + 2))
    src += "func F(from string) int { return tr.Add(\"%s.F<-\" + from + \"=\" + itoa(int(sq(%d)))) }\n" % (name, (k + 3) * (k + 3))
    return src


def program(shape, py):
    """shape: list of (name, deps); main imports the roots"""
    sq = SQ_PY if py else SQ_GO
    files = {"tr/tr.go": TR}
    imported = {d for _, deps in shape for d in deps}
    for k, (name, deps) in enumerate(shape):
        files["%s/a.go" % name] = lib(name, deps, 2 + 3 * k)
        files["%s/sq.go" % name] = "package %s\n\n%s" % (name, sq)
        files["%s/itoa.go" % name] = itoa_src(name)
    roots = [n for n, _ in shape if n not in imported]
    main = PRELUDE.replace('import (\n\t"os"\n\t"unsafe"\n)', 'import (\n\t"os"\n\t"unsafe"\n\t"vt/tr"\n' + "".join("\t\"vt/%s\"\n" % r for r in roots) + ')')
    main += "\nvar M1 = tr.Add(\"main.M1=\" + itoa(int64(sq(49))))" + "".join(" + %s.F(\"main\")" % r for r in roots) + "\n\nfunc init() { tr.Add(\"main.init=\" + itoa(int64(sq(64)))) }\n"
    main += "\nfunc main() {\n\ttr.Add(\"main.main\")\n\trunAll([]func(){func() {\n\t\ts := \"\"\n\t\tfor _, e := range tr.T {\n\t\t\ts += e + \" \"\n\t\t}\n\t\temit(\"order\", s)\n\t}})\n}\n"
    files["main.go"] = main
    files["sq.go"] = "package main\n\n" + sq
    files["go.mod"] = "module vt\n\ngo 1.24\n" + ("\nrequire github.com/goplus/lib v0.3.1\n" if py else "")
    return files


SHAPES = {"chain": [("pa", ["pb"]), ("pb", [])], "fork": [("pa", ["pc"]), ("pb", ["pc"]), ("pc", [])], "single": [("pa", [])]}
