"""C12 generator: all import DAGs on <=3 (thorough 4) packages up to isomorphism x content variants; the ordered trace of
variable initialisers and init functions must equal the reference toolchain's."""
import itertools, sys
sys.path.insert(0, "/verif/lib")
from prelude import PRELUDE


def dags(n):
    """all DAGs on nodes 0..n-1 with edges i->j only for i<j (i imports j), up to isomorphism (canonical form by brute force)."""
    pairs = [(i, j) for i in range(n) for j in range(i + 1, n)]
    seen, out = set(), []
    for mask in range(1 << len(pairs)):
        edges = [p for k, p in enumerate(pairs) if mask >> k & 1]
        best = None
        for perm in itertools.permutations(range(n)):
            e2 = sorted((perm[a], perm[b]) for a, b in edges)
            if all(a < b for a, b in e2):
                key = tuple(e2)
                if best is None or key < best:
                    best = key
        if best not in seen:
            seen.add(best)
            out.append(list(best))
    return out


TR = '''package tr

var T []string

func Add(s string) int {
	T = append(T, s)
	return len(T)
}
'''


def thin_pkg_files(name, deps, blank):
    """a package without package-level variables and without init functions: only its imports need initialising"""
    if blank:
        imp = "import (\n\t\"vt/tr\"\n" + "".join("\t_ \"vt/%s\"\n" % d for d in deps) + ")\n"
        body = "func F(from string) int { return tr.Add(\"%s.F<-\" + from) }\n" % name
    else:
        imp = "import (\n\t\"vt/tr\"\n" + "".join("\t\"vt/%s\"\n" % d for d in deps) + ")\n"
        body = "func F(from string) int { return tr.Add(\"%s.F<-\" + from) }\n\nfunc Deep() int { return 0%s }\n" % (name, "".join(" + %s.V2" % d for d in deps))
    return {"%s/a_%s.go" % (name, name): "package %s\n\n%s\n%s" % (name, imp, body)}


def pkg_files(name, deps, variant):
    """two files whose names sort opposite to the order of declaration dependencies."""
    a, z = [], []
    imports = ["vt/tr"] + ["vt/%s" % d for d in deps]
    std = ""
    if variant in ("std", "all"):
        imports.append("sync/atomic")
        std = "var Cnt = func() int64 {\n\tvar c atomic.Int64\n\tc.Add(3)\n\ttr.Add(\"%s.Cnt\")\n\treturn c.Load()\n}()\n" % name
    imp = "import (\n" + "".join("\t\"%s\"\n" % i for i in imports) + ")\n"
    depuse = "".join(" + %s.F(\"%s\")" % (d, name) for d in deps)
    # file a_*.go: V1 depends on V3 (declared in the later file) and on every imported package
    a.append("package %s\n\n%s\n" % (name, imp))
    a.append("var V1 = tr.Add(\"%s.V1\") + V3%s\n" % (name, depuse))
    a.append("func init() { tr.Add(\"%s.init.a1\") }\n" % name)
    if variant in ("multi", "all"):
        a.append("func init() { tr.Add(\"%s.init.a2\") }\n" % name)
    a.append("// F is called from the initialisers of importing packages\nfunc F(from string) int { return tr.Add(\"%s.F<-\" + from) }\n" % name)
    a.append(std)
    imp_z = "import \"vt/tr\"\n"
    z.append("package %s\n\n%s\n" % (name, imp_z))
    z.append("var V2 = tr.Add(\"%s.V2\")\n" % name)
    z.append("var V3 = tr.Add(\"%s.V3\") + V4\n" % name)
    z.append("var V4 = tr.Add(\"%s.V4\")\n" % name)
    if variant in ("multi", "all"):
        z.append("var _ = tr.Add(\"%s.blank\")\n" % name)
    z.append("func init() { tr.Add(\"%s.init.z1\") }\n" % name)
    return {"%s/a_%s.go" % (name, name): "\n".join(a), "%s/z_%s.go" % (name, name): "\n".join(z)}


def program(n, edges, variant, main_mode):
    names = ["p%d" % i for i in range(n)]
    files = {"tr/tr.go": TR}
    deps = {i: [names[j] for (a, j) in edges if a == i] for i in range(n)}
    imported = {j for _, j in edges}
    for i in range(n):
        middle = bool(deps[i]) and i in imported
        if variant in ("thin", "thinblank") and middle:
            files.update(thin_pkg_files(names[i], deps[i], variant == "thinblank"))
        else:
            files.update(pkg_files(names[i], deps[i], "plain" if variant in ("thin", "thinblank") else variant))
    roots = [i for i in range(n) if i not in imported]
    if main_mode == "all":
        mi = list(reversed(range(n)))
    else:
        mi = roots
    blank = variant in ("blank", "all")
    imps = "".join("\t%s\"vt/%s\"\n" % ("_ " if blank and k % 2 == 1 else "", names[i]) for k, i in enumerate(mi))
    uses = "".join(" + %s.F(\"main\")" % names[i] for k, i in enumerate(mi) if not (blank and k % 2 == 1))
    main = PRELUDE.replace('import (\n\t"os"\n\t"unsafe"\n)', 'import (\n\t"os"\n\t"unsafe"\n\t"vt/tr"\n' + imps + ')')
    main += "\nvar M1 = tr.Add(\"main.M1\")%s\n\nfunc init() { tr.Add(\"main.init\") }\n\nfunc main() {\n\ttr.Add(\"main.main\")\n\truntimeAll()\n}\n" % uses
    main += "\nfunc runtimeAll() {\n\truntimeCases := []func(){func() {\n\t\ts := \"\"\n\t\tfor _, e := range tr.T {\n\t\t\ts += e + \" \"\n\t\t}\n\t\temit(\"order\", s)\n\t}}\n\trunAll(runtimeCases)\n}\n"
    files["main.go"] = main
    return files


# ---------------------------------------------------------------- initialisers that depend on the run-time type table
# The program entry publishes the type table before any package initialiser runs; initialisers and init functions that build types with reflect
# (SliceOf / MapOf / PointerTo / ArrayOf) must get the very descriptors of the static types, in a dependency package and in main.
TT_BODY = """var T1 = tr.Add("%(p)s.T1=" + b2s(reflect.SliceOf(reflect.TypeOf(0)) == reflect.TypeOf([]int(nil))))
var T2 = tr.Add("%(p)s.T2=" + b2s(reflect.MapOf(reflect.TypeOf(""), reflect.TypeOf(0)) == reflect.TypeOf(map[string]int(nil))))
var T3 = tr.Add("%(p)s.T3=" + b2s(reflect.PointerTo(reflect.TypeOf(rec{})) == reflect.TypeOf(&rec{})))
var T4 = tr.Add("%(p)s.T4=" + sum3())
var T5 = tr.Add("%(p)s.T5=" + b2s(reflect.ArrayOf(3, reflect.TypeOf(int8(0))) == reflect.TypeOf([3]int8{})))

type rec struct {
	A int
	B string
}

func sum3() string {
	v := reflect.MakeSlice(reflect.SliceOf(reflect.TypeOf(0)), 0, 3)
	v = reflect.Append(v, reflect.ValueOf(3), reflect.ValueOf(4))
	xs, ok := v.Interface().([]int)
	if !ok {
		return "notaslice"
	}
	n := 0
	for _, x := range xs {
		n += x
	}
	m := reflect.MakeMap(reflect.MapOf(reflect.TypeOf(""), reflect.TypeOf(0)))
	m.SetMapIndex(reflect.ValueOf("k"), reflect.ValueOf(5))
	if mm, ok := m.Interface().(map[string]int); ok {
		n += mm["k"]
	}
	return string(rune('0'+n%%10)) + string(rune('0'+n/10))
}

func b2s(b bool) string {
	if b {
		return "true"
	}
	return "false"
}

func init() {
	tr.Add("%(p)s.init=" + b2s(reflect.SliceOf(reflect.TypeOf(rec{})) == reflect.TypeOf([]rec(nil))) + sum3())
}
"""


def typetable_program():
    files = {"tr/tr.go": TR}
    files["p0/p0.go"] = "package p0\n\nimport (\n\t\"reflect\"\n\n\t\"vt/tr\"\n)\n\n" + TT_BODY % dict(p="p0") + "\nfunc F(from string) int { return tr.Add(\"p0.F<-\" + from) }\n"
    main = PRELUDE.replace('import (\n\t"os"\n\t"unsafe"\n)', 'import (\n\t"os"\n\t"reflect"\n\t"unsafe"\n\n\t"vt/p0"\n\t"vt/tr"\n)')
    main += "\nvar M0 = tr.Add(\"main.M0\") + p0.F(\"main\")\n\n" + TT_BODY % dict(p="main")
    main += "\nfunc main() {\n\ttr.Add(\"main.main=\" + b2s(reflect.SliceOf(reflect.TypeOf(0)) == reflect.TypeOf([]int(nil))))\n\trunAll([]func(){func() {\n\t\ts := \"\"\n\t\tfor _, e := range tr.T {\n\t\t\ts += e + \" \"\n\t\t}\n\t\temit(\"order\", s)\n\t}})\n}\n"
    files["main.go"] = main
    return files


def programs(tier):
    ps = {}
    maxn = 4 if tier == "thorough" else 3
    variants = ["plain", "multi", "blank", "std", "all", "thin", "thinblank"] if tier == "thorough" else ["plain", "all", "thin", "thinblank"]
    for n in range(1, maxn + 1):
        for di, edges in enumerate(dags(n)):
            for v in variants:
                if n == 4 and v not in ("all", "thin"):
                    continue   # the 31 four-package DAGs: two variants, main importing the roots (491 programs took > 6 h here; everything else runs on every DAG of <= 3 packages)
                for mm in (("roots", "all") if n > 1 and n < 4 else ("roots",)):
                    if tier != "thorough" and mm == "all" and v == "plain":
                        continue
                    if v in ("thin", "thinblank") and not any(any(a == j for a, _ in edges) and any(b == j for _, b in edges) for j in range(n)):
                        continue  # no middle package in this DAG
                    name = "n%d_d%d_%s_%s" % (n, di, v, mm)
                    ps[name] = program(n, edges, v, mm)
    ps["typetable_init"] = typetable_program()
    return ps


if __name__ == "__main__":
    import os
    ps = programs(sys.argv[2] if len(sys.argv) > 2 else "quick")
    print(len(ps), [len(dags(n)) for n in (1, 2, 3, 4)])
    for k, files in list(ps.items()):
        d = os.path.join(sys.argv[1], k)
        for rel, txt in files.items():
            os.makedirs(os.path.dirname(os.path.join(d, rel)), exist_ok=True)
            open(os.path.join(d, rel), "w").write(txt)
        open(os.path.join(d, "go.mod"), "w").write("module vt\n\ngo 1.24\n")
