#!/usr/bin/env python3
"""C12: package initialisation order over all import DAGs (<=3 packages, thorough 4) x content variants, vs go1.24.0."""
import os, sys
sys.path.insert(0, "/verif/lib"); sys.path.insert(0, os.path.dirname(os.path.abspath(__file__)))
import diffcheck, gen


def canon(trace):
    """What the property specifies about the trace: every entry once, each package's own sequence, and dependencies first.
    The relative order of packages that do not depend on each other is not part of the property and is dropped."""
    ents = trace.split()
    owner = lambda e: e.split("<-")[1] if "<-" in e else e.split(".")[0]
    blocks, order = {}, []
    for e in ents:
        o = owner(e)
        if o not in blocks:
            blocks[o] = []
            order.append(o)
        blocks[o].append(e)
    # contiguity + dependencies: a package whose initialisers call X.F must start after X's block is complete
    pos = {e: i for i, e in enumerate(ents)}
    problems = []
    for o, b in blocks.items():
        idx = [pos[e] for e in b]
        if idx != list(range(idx[0], idx[0] + len(idx))):
            problems.append("block of %s not contiguous" % o)
        for e in b:
            if "<-" in e:
                dep = e.split(".")[0]
                if dep in blocks and max(pos[x] for x in blocks[dep]) > idx[0]:
                    problems.append("%s starts before its dependency %s finished" % (o, dep))
    dup = [e for e in set(ents) if ents.count(e) > 1]
    return " | ".join("%s: %s" % (o, " ".join(blocks[o])) for o in sorted(blocks)) + " || problems=%s dup=%s last=%s" % (sorted(set(problems)), sorted(dup), order[-1] if order else "")
def pyinit_post(rep, results, a):
    """initialisers and init functions that call Python: llgo+CPython trace vs the reference toolchain's trace of the same program with sq() = math.Sqrt"""
    import pyinit
    from common import write_module, build_go, build_llgo, BuildError, workdir
    from diff import run_batch
    n = 0
    for shape, spec in pyinit.SHAPES.items():
        d = workdir("C12", "pyinit_" + shape)
        outs = {}
        for py in (False, True):
            src = os.path.join(d, "py" if py else "go")
            files = pyinit.program(spec, py)
            if py:
                files["go.sum"] = open("/verif/checks/c19/go.sum").read()
            write_module(src, files)
            exe = os.path.join(d, "py.exe" if py else "go.exe")
            try:
                if py:
                    build_llgo(src, exe, backend="A", env_extra={"LLGO_LIB_PYTHON": "/usr/lib/x86_64-linux-gnu/python3.11"}, cachetag="-py")
                else:
                    build_go(src, exe)
            except BuildError as e:
                rep.violation("build:pyinit:%s:%s" % (shape, "llgo" if py else "go"), "pyinit program does not build:\n" + str(e)[-2500:]); break
            cases, _, crashes = run_batch(exe, timeout=120)
            outs[py] = cases.get("order", "<no output; crashes=%s>" % (crashes,))
        if len(outs) == 2:
            n += 1
            if outs[True] != outs[False]:
                rep.violation("pyinit:" + shape, "initialisers calling Python, shape %s: llgo trace %r, reference trace %r" % (shape, outs[True], outs[False]), {"program": "pyinit_" + shape})
    rep.coverage["python_initialiser_programs"] = n
    rep.coverage["evaluations"] = rep.coverage.get("evaluations", 0) + n


diffcheck.main("C12", "exploration", gen.programs, post=pyinit_post,
    rule="program = one import DAG on <=3 (thorough: <=4, all 31 with two variants) library packages up to isomorphism, main importing the roots or every package (reverse order), x content "
         "variants {plain; several init functions per file and blank variables; blank imports; a package-level initialiser using the patched sync/atomic; all}. Every package has two "
         "files whose declaration dependencies run against file order, cross-package initialisers calling into the imported package, and init functions in both files. "
         "observation = the complete ordered trace of initialiser and init executions; non-trivial = distinct traces",
    samples=["n3_d5_all_all: p2.Cnt p2.V2 p2.V4 p2.V3 p2.V1 p2.blank p2.init.a1 ... main.M1 p2.F<-main p0.F<-main main.init main.main"],
    assumptions=["only build mode exe is executed", "the relative order of packages that do not depend on one another is not compared (the property does not fix it; Go >= 1.21 sorts by import path, llgo follows import order)"], workers=8, canon=canon)
