#!/usr/bin/env python3
"""C12: package initialisation order over all import DAGs (<=3 packages, thorough 4) x content variants, vs go1.24.0."""
import os, sys
sys.path.insert(0, "/verif/lib"); sys.path.insert(0, os.path.dirname(os.path.abspath(__file__)))
import diffcheck, gen
diffcheck.main("C12", "exploration", gen.programs,
    rule="program = one import DAG on <=3 (thorough: <=4, all 31) library packages up to isomorphism, main importing the roots or every package (reverse order), x content "
         "variants {plain; several init functions per file and blank variables; blank imports; a package-level initialiser using the patched sync/atomic; all}. Every package has two "
         "files whose declaration dependencies run against file order, cross-package initialisers calling into the imported package, and init functions in both files. "
         "observation = the complete ordered trace of initialiser and init executions; non-trivial = distinct traces",
    samples=["n3_d5_all_all: p2.Cnt p2.V2 p2.V4 p2.V3 p2.V1 p2.blank p2.init.a1 ... main.M1 p2.F<-main p0.F<-main main.init main.main"],
    assumptions=["only build mode exe is executed"], workers=8)
