package goembed

// Injected by /verif (C16): all small directory trees x pattern lists, LoadDirectives/ResolvePatterns vs `go list`.

import (
	"encoding/json"
	"fmt"
	"go/ast"
	"go/parser"
	"go/token"
	"os"
	"os/exec"
	"path/filepath"
	"reflect"
	"sort"
	"strconv"
	"strings"
	"testing"
)

type vres struct {
	Name        string           `json:"name"`
	Evaluations int              `json:"evaluations"`
	Nontrivial  int              `json:"distinct_nontrivial"`
	Violations  []map[string]any `json:"violations"`
	Samples     []any            `json:"samples"`
	Exhaustive  bool             `json:"exhaustive"`
	Extra       map[string]any   `json:"extra"`
}

func (r *vres) viol(key, what string, replay any) {
	if len(r.Violations) < 80 {
		r.Violations = append(r.Violations, map[string]any{"key": key, "what": what, "replay": replay})
	}
}

// tree entries: "path" file, "path/" empty dir, "path->target" symlink
var vEntries = []string{
	"a.txt", ".h", "_u", "b c.txt", "é.txt", ".git/x", "d/a", "d/.h", "d/_u", "d/e/f", "d.md", "d-x/y",
	"m/go.mod", "m/x", "z/", "l->a.txt", "d/aux.txt", "d/q:r", "d/.svn/k", "d/s/.t/u", "d/n/go.mod", "d/n/w",
}

var vPatterns = []string{
	"a.txt", "*", "*.txt", "d", "d/*", "all:d", "all:*", ".", "..", "d/e", "d/e/f", `"a.txt"`, "`b c.txt`", `"b c.txt"`, "m", "m/x", "z", "l", "/abs", "a.txt/", "*/*",
	"[", "d/a a.txt", "a.txt a.txt", "d.md d", ".h", "all:.h", "d/.h", "d/_u", "_u", "é.txt", "d*", "all:d*", "../x", "d/../a.txt", "nope", "d/aux.txt", "d/n", "d/s", "all:d/s", "d/.svn",
	// an all: pattern followed by a plain one in the same directive: the prefix applies to its own pattern only
	"all:d/s d", "all:m d", "all:d/e d/s", "d all:d/s", "all:z d/*",
}

type vCase struct {
	Entries  []string
	Patterns string // text after "//go:embed "
	Style    int    // 0 plain; 1 two directives; 2 grouped var; 3 tabs
}

func (c vCase) String() string {
	return fmt.Sprintf("tree=%q embed=%q style=%d", c.Entries, c.Patterns, c.Style)
}

func (c vCase) source() string {
	pats := c.Patterns
	var sb strings.Builder
	sb.WriteString("package p\n\nimport \"embed\"\n\n")
	switch c.Style {
	case 1:
		f := strings.SplitN(pats, " ", 2)
		sb.WriteString("//go:embed " + f[0] + "\n")
		if len(f) > 1 {
			sb.WriteString("//go:embed " + f[1] + "\n")
		}
		sb.WriteString("var v embed.FS\n")
	case 2:
		sb.WriteString("var (\n\t//go:embed " + pats + "\n\tv embed.FS\n)\n")
	case 3:
		sb.WriteString("//go:embed\t" + strings.ReplaceAll(pats, " ", "\t \t") + "\t\nvar v embed.FS\n")
	default:
		sb.WriteString("//go:embed " + pats + "\nvar v embed.FS\n")
	}
	return sb.String()
}

func (c vCase) write(dir string) error {
	if err := os.MkdirAll(dir, 0o755); err != nil {
		return err
	}
	for _, e := range c.Entries {
		switch {
		case strings.HasSuffix(e, "/"):
			if err := os.MkdirAll(filepath.Join(dir, e), 0o755); err != nil {
				return err
			}
		case strings.Contains(e, "->"):
			f := strings.Split(e, "->")
			os.MkdirAll(filepath.Dir(filepath.Join(dir, f[0])), 0o755)
			if err := os.Symlink(f[1], filepath.Join(dir, f[0])); err != nil {
				return err
			}
		default:
			p := filepath.Join(dir, e)
			os.MkdirAll(filepath.Dir(p), 0o755)
			content := "content of " + e + "\n"
			if strings.HasSuffix(e, "go.mod") {
				content = "module nested\n"
			}
			if err := os.WriteFile(p, []byte(content), 0o644); err != nil {
				return err
			}
		}
	}
	return os.WriteFile(filepath.Join(dir, "x.go"), []byte(c.source()), 0o644)
}

func subsets(n, k int) [][]int {
	var res [][]int
	var rec func(start int, cur []int)
	rec = func(start int, cur []int) {
		res = append(res, append([]int{}, cur...))
		if len(cur) == k {
			return
		}
		for i := start; i < n; i++ {
			rec(i+1, append(cur, i))
		}
	}
	rec(0, nil)
	return res
}

func TestVerifEmbed(t *testing.T) {
	treeMax := 2
	if v, err := strconv.Atoi(os.Getenv("VERIF_TREE")); err == nil {
		treeMax = v
	}
	r := &vres{Name: "goembed.vs_go_list", Exhaustive: true, Extra: map[string]any{"tree_subset_max": treeMax, "entries": len(vEntries), "patterns": len(vPatterns)}}
	var cases []vCase
	full := append([]string{}, vEntries...)
	trees := [][]string{full}
	for _, ss := range subsets(len(vEntries), treeMax) {
		var es []string
		for _, i := range ss {
			es = append(es, vEntries[i])
		}
		trees = append(trees, es)
	}
	for _, tr := range trees {
		for _, p := range vPatterns {
			cases = append(cases, vCase{Entries: tr, Patterns: p})
		}
	}
	// directive text variants on a fixed mid-size tree
	mid := []string{"a.txt", "b c.txt", "d/a", "d/.h", "d/e/f", ".h", "d.md"}
	for _, p := range []string{"a.txt d", "d \"b c.txt\"", "all:d *.txt", "`b c.txt` a.txt", "a.txt nope", "a.txt\"", "\"a.\\x74xt\"", "'a.txt'", "d/a d/e"} {
		for st := 0; st < 4; st++ {
			cases = append(cases, vCase{Entries: mid, Patterns: p, Style: st})
		}
	}
	r.Extra["trees"] = len(trees)
	base, _ := filepath.Abs(t.TempDir())
	if err := os.WriteFile(filepath.Join(base, "go.mod"), []byte("module vt\n\ngo 1.24\n"), 0o644); err != nil {
		t.Fatal(err)
	}
	for i, c := range cases {
		if err := c.write(filepath.Join(base, fmt.Sprintf("c%05d", i))); err != nil {
			t.Fatalf("harness: %v", err)
		}
	}
	// oracle: one `go list` over all packages
	cmd := exec.Command("go", "list", "-e", "-json=Dir,EmbedFiles,Error,Incomplete", "./...")
	cmd.Dir = base
	cmd.Env = append(os.Environ(), "GOFLAGS=-mod=mod", "GOWORK=off")
	out, err := cmd.Output()
	if err != nil {
		t.Fatalf("harness: go list: %v\n%s", err, out)
	}
	type pkgInfo struct {
		Dir        string
		EmbedFiles []string
		Error      *struct{ Err string }
	}
	oracle := map[string]pkgInfo{}
	dec := json.NewDecoder(strings.NewReader(string(out)))
	for dec.More() {
		var p pkgInfo
		if err := dec.Decode(&p); err != nil {
			t.Fatalf("harness: %v", err)
		}
		oracle[filepath.Base(p.Dir)] = p
	}
	accepted, rejected := 0, 0
	distinct := map[string]bool{}
	for i, c := range cases {
		name := fmt.Sprintf("c%05d", i)
		dir := filepath.Join(base, name)
		o, ok := oracle[name]
		if !ok {
			// a package go list does not even see (e.g. parse error in the directive comment cannot happen; nested module dirs are separate)
			t.Fatalf("harness: go list did not report %s (%s)", name, c)
		}
		r.Evaluations++
		fset := token.NewFileSet()
		f, perr := parser.ParseFile(fset, filepath.Join(dir, "x.go"), nil, parser.ParseComments)
		if perr != nil {
			t.Fatalf("harness: %v", perr)
		}
		vm, lerr := LoadDirectives(fset, []*ast.File{f})
		goRejects := o.Error != nil
		if goRejects {
			rejected++
		} else {
			accepted++
		}
		switch {
		case goRejects && lerr == nil:
			r.viol("accept:"+c.String(), fmt.Sprintf("%s: the go tool rejects it (%s) but LoadDirectives accepted and resolved %v", c, o.Error.Err, names(vm["v"].Files)), c)
		case !goRejects && lerr != nil:
			r.viol("reject:"+c.String(), fmt.Sprintf("%s: the go tool embeds %v but LoadDirectives failed: %v", c, o.EmbedFiles, lerr), c)
		case !goRejects:
			got := names(vm["v"].Files)
			want := append([]string{}, o.EmbedFiles...)
			sort.Strings(want)
			if !reflect.DeepEqual(got, want) && !(len(got) == 0 && len(want) == 0) {
				r.viol("files:"+c.String(), fmt.Sprintf("%s: embedded files %v, the go tool embeds %v", c, got, want), c)
			}
			for _, fd := range vm["v"].Files {
				disk, _ := os.ReadFile(filepath.Join(dir, filepath.FromSlash(fd.Name)))
				if string(disk) != string(fd.Data) {
					r.viol("bytes:"+c.String()+":"+fd.Name, fmt.Sprintf("%s: bytes of %s differ from the file", c, fd.Name), c)
				}
			}
			// embed.FS table: names sorted the way the embed package searches them (dir, then elem, directories without the slash)
			ents := BuildFSEntries(vm["v"].Files)
			if msg := checkFSEntries(vm["v"].Files, ents); msg != "" {
				r.viol("fsentries:"+c.String(), fmt.Sprintf("%s: embed.FS table wrong: %s", c, msg), c)
			}
			if len(want) > 0 {
				distinct[strings.Join(want, "|")+"#"+c.Patterns] = true
			}
		}
	}
	r.Extra["go_accepts"] = accepted
	r.Extra["go_rejects"] = rejected
	r.Nontrivial = len(distinct)
	r.Samples = []any{cases[len(cases)/3].String(), cases[len(cases)-7].String()}
	if p := os.Getenv("VERIF_OUT"); p != "" {
		b, _ := json.Marshal([]*vres{r})
		os.WriteFile(p, b, 0o644)
	}
}

func names(fs []FileData) []string {
	var n []string
	for _, f := range fs {
		n = append(n, f.Name)
	}
	sort.Strings(n)
	return n
}

// reference for the embed.FS file table: every file plus every parent directory ("dir/"), data preserved,
// sorted by (parent dir, element) with the trailing slash ignored -- the order embed.FS.lookup's binary search assumes.
func checkFSEntries(files, ents []FileData) string {
	want := map[string]string{}
	for _, f := range files {
		want[f.Name] = string(f.Data)
		parts := strings.Split(f.Name, "/")
		for i := 1; i < len(parts); i++ {
			want[strings.Join(parts[:i], "/")+"/"] = ""
		}
	}
	if len(ents) != len(want) {
		return fmt.Sprintf("%d entries, want %d", len(ents), len(want))
	}
	split := func(name string) (string, string) {
		name = strings.TrimSuffix(name, "/")
		if i := strings.LastIndex(name, "/"); i >= 0 {
			return name[:i], name[i+1:]
		}
		return ".", name
	}
	for i, e := range ents {
		w, ok := want[e.Name]
		if !ok || w != string(e.Data) {
			return "unexpected or altered entry " + e.Name
		}
		if i > 0 {
			pd, pe := split(ents[i-1].Name)
			d, el := split(e.Name)
			if !(pd < d || (pd == d && pe < el)) {
				return fmt.Sprintf("entries out of order: %q before %q", ents[i-1].Name, e.Name)
			}
		}
	}
	return ""
}
