#!/usr/bin/env python3
"""C16: all small directory trees x pattern lists; goembed.LoadDirectives/ResolvePatterns/BuildFSEntries vs `go list` (accept/reject, file set, bytes)."""
import argparse, json, os, sys
sys.path.insert(0, "/verif/lib")
from common import *
HERE = os.path.dirname(os.path.abspath(__file__))
ap = argparse.ArgumentParser()
ap.add_argument("--id", default="C16"); ap.add_argument("--tier", default=os.environ.get("VERIF_TIER", "quick")); ap.add_argument("--replay")
a = ap.parse_args()
thorough = a.tier == "thorough"
rep = Report("C16", a.tier, "exploration")
work = workdir("C16")
out = os.path.join(work, "embed.json")
if os.path.exists(out): os.remove(out)
r = go_test_overlay("internal/goembed", {"zz_embed_verif_test.go": os.path.join(HERE, "embed_verif_test.go")}, "^TestVerifEmbed$",
                    env_extra={"VERIF_OUT": out, "VERIF_TREE": "3" if thorough else "2", "TMPDIR": work}, timeout=3000)
ev = nt = 0; samples = []; subs = {}; exh = True
if r.returncode != 0 or not os.path.exists(out):
    rep.violation("harness:embed", "injected test did not complete:\n" + r.stdout[-3000:] + r.stderr[-2000:]); exh = False
else:
    for sub in json.load(open(out)):
        ev += sub["evaluations"]; nt += sub["distinct_nontrivial"]; samples += sub["samples"]
        subs[sub["name"]] = {k: sub[k] for k in ("evaluations", "distinct_nontrivial", "extra")}
        for v in sub["violations"] or []:
            rep.violation(v["key"], v["what"], v.get("replay"))
rep.coverage.update(evaluations=ev, distinct_nontrivial=nt, exhaustive=exh, samples=samples or ["-"], sub_checks=subs,
    rule="trees = every subset of <=2 (thorough 3) of 22 entries (hidden/underscore names, spaces, unicode, .git/.svn, nested module, empty dir, symlink, "
         "names module.CheckFilePath rejects, sibling-prefix names) plus the full tree; x 42 pattern lists (globs, dirs, all:, quoted forms, duplicates, "
         "invalid); plus directive-text variants; non-trivial = distinct (embedded file set, pattern) pairs the go tool accepts")
rep.assumptions += ["oracle: go1.24.0 `go list -e -json` EmbedFiles / Error for the same directory", "a go:embed in a file that does not import embed is not enumerated (go list ignores it, the compiler rejects it)"]
rep.finish()
