package ssa

// Injected by /verif (C08): the three layout computations must agree for every type of a grammar, on every target.

import (
	"encoding/json"
	"fmt"
	"go/token"
	"go/types"
	"os"
	"sort"
	"strings"
	"testing"

	"github.com/goplus/gogen/packages"
	"github.com/goplus/llgo/ssa/abi"
)

var vRuntimePkg *types.Package

func vRuntime(t *testing.T) *types.Package {
	if vRuntimePkg == nil {
		imp := packages.NewImporter(token.NewFileSet())
		pkg, err := imp.Import(PkgRuntime)
		if err != nil {
			t.Fatalf("harness: load runtime: %v", err)
		}
		vRuntimePkg = pkg
	}
	return vRuntimePkg
}

type vresL struct {
	Name        string           `json:"name"`
	Evaluations int              `json:"evaluations"`
	Nontrivial  int              `json:"distinct_nontrivial"`
	Violations  []map[string]any `json:"violations"`
	Samples     []any            `json:"samples"`
	Exhaustive  bool             `json:"exhaustive"`
	Extra       map[string]any   `json:"extra"`
}

func vfield(name string, t types.Type) *types.Var { return types.NewField(token.NoPos, nil, name, t, false) }

func vTypes() []types.Type {
	T := types.Typ
	sig := types.NewSignatureType(nil, nil, nil, nil, nil, false)
	base := []types.Type{T[types.Bool], T[types.Int8], T[types.Int16], T[types.Int32], T[types.Int64], T[types.Int], T[types.Uintptr], T[types.Float32], T[types.Float64],
		T[types.Complex64], T[types.Complex128], T[types.String], T[types.UnsafePointer], types.NewPointer(T[types.Int8]), types.NewSlice(T[types.Int8]),
		types.NewMap(T[types.Int], T[types.Int]), types.NewChan(types.SendRecv, T[types.Int]), sig, types.NewInterfaceType(nil, nil).Complete(),
		types.Universe.Lookup("error").Type()}
	var all []types.Type
	all = append(all, base...)
	for _, b := range base {
		for _, n := range []int64{0, 1, 3} {
			all = append(all, types.NewArray(b, n))
		}
	}
	empty := types.NewStruct(nil, nil)
	pool := []types.Type{T[types.Int8], T[types.Int16], T[types.Int32], T[types.Int64], T[types.Float32], T[types.Complex64], T[types.String], sig,
		types.NewArray(T[types.Int64], 0), types.NewArray(T[types.Int8], 3), empty, types.NewPointer(T[types.Int8]), types.NewInterfaceType(nil, nil).Complete(),
		types.NewArray(T[types.Int64], 1), types.NewArray(sig, 2), T[types.Bool]}
	var structs []types.Type
	names := []string{"A", "B", "C"}
	var rec func(cur []types.Type)
	rec = func(cur []types.Type) {
		if len(cur) > 0 {
			fs := make([]*types.Var, len(cur))
			for i, t := range cur {
				fs[i] = vfield(names[i], t)
			}
			structs = append(structs, types.NewStruct(fs, nil))
		}
		if len(cur) == 3 {
			return
		}
		for _, p := range pool {
			rec(append(cur, p))
		}
	}
	rec(nil)
	all = append(all, empty)
	all = append(all, structs...)
	// depth 3: nesting and arrays of a systematic sample of the structs
	for i := 0; i < len(structs); i += 13 {
		s := structs[i]
		all = append(all, types.NewArray(s, 3), types.NewArray(s, 0),
			types.NewStruct([]*types.Var{vfield("A", types.Typ[types.Int8]), vfield("B", s)}, nil),
			types.NewStruct([]*types.Var{vfield("A", s), vfield("B", types.Typ[types.Int8])}, nil),
			types.NewStruct([]*types.Var{vfield("A", s), vfield("B", types.NewStruct(nil, nil))}, nil),
			types.NewMap(types.Typ[types.Int32], s))
	}
	// maps whose keys/elems straddle the 128-byte indirect threshold
	for _, n := range []int64{15, 16, 17, 25} {
		big := types.NewArray(types.Typ[types.Int64], n)
		all = append(all, types.NewMap(big, types.Typ[types.Int8]), types.NewMap(types.Typ[types.Int8], big), types.NewMap(types.Typ[types.String], big))
	}
	return all
}

func TestVerifLayout(t *testing.T) {
	targets := []struct{ goos, goarch string }{{"linux", "amd64"}, {"linux", "arm64"}, {"linux", "386"}, {"linux", "arm"}, {"wasip1", "wasm"}}
	if only := os.Getenv("VERIF_TARGETS"); only != "" {
		var sel []struct{ goos, goarch string }
		for _, tg := range targets {
			if strings.Contains(","+only+",", ","+tg.goarch+",") {
				sel = append(sel, tg)
			}
		}
		targets = sel
	}
	r := &vresL{Name: "layout.agreement", Exhaustive: true, Extra: map[string]any{}}
	all := vTypes()
	r.Extra["types"] = len(all)
	distinct := map[string]bool{}
	nviol := 0
	for _, tg := range targets {
		prog := NewProgram(&Target{GOOS: tg.goos, GOARCH: tg.goarch})
		prog.SetRuntime(func() *types.Package { return vRuntime(t) })
		base := types.SizesFor("gc", tg.goarch)
		if tg.goarch == "wasm" {
			base = &types.StdSizes{WordSize: 4, MaxAlign: 4} // what internal/build uses for wasm
		}
		if base == nil {
			t.Fatalf("harness: no sizes for %s", tg.goarch)
		}
		sizes := prog.TypeSizes(base)
		td := prog.TargetData()
		for _, ty := range all {
			r.Evaluations++
			key := tg.goarch + "|" + ty.String()
			var msgs []string
			func() {
				defer func() {
					if e := recover(); e != nil {
						msgs = append(msgs, fmt.Sprintf("panic: %v", e))
					}
				}()
				lt := prog.Type(ty, InGo)
				// (a) what folds unsafe.Sizeof/Alignof/Offsetof   (b) what generated code uses   (c) what descriptors record
				aSize, aAlign := sizes.Sizeof(ty), sizes.Alignof(ty)
				bSize, bAlign := int64(prog.SizeOf(lt)), int64(td.ABITypeAlignment(lt.ll))
				_, isSig := ty.Underlying().(*types.Signature)
				if aSize != bSize {
					msgs = append(msgs, fmt.Sprintf("size: unsafe.Sizeof=%d generated-code=%d", aSize, bSize))
				}
				if aAlign != bAlign && aSize != 0 {
					msgs = append(msgs, fmt.Sprintf("align: unsafe.Alignof=%d generated-code=%d", aAlign, bAlign))
				}
				if !isSig {
					cSize, cAlign := int64(prog.abi.Size(ty)), int64(prog.abi.Align(ty))
					if cSize != bSize {
						msgs = append(msgs, fmt.Sprintf("size: descriptor=%d generated-code=%d", cSize, bSize))
					}
					if cAlign != bAlign && bSize != 0 {
						msgs = append(msgs, fmt.Sprintf("align: descriptor=%d generated-code=%d", cAlign, bAlign))
					}
				}
				if st, ok := ty.Underlying().(*types.Struct); ok && st.NumFields() > 0 {
					fs := make([]*types.Var, st.NumFields())
					for i := range fs {
						fs[i] = st.Field(i)
					}
					offs := sizes.Offsetsof(fs)
					for i := range fs {
						if b := int64(prog.OffsetOf(lt, i)); b != offs[i] {
							msgs = append(msgs, fmt.Sprintf("offset of field %d: unsafe.Offsetof=%d generated-code/descriptor=%d", i, offs[i], b))
						}
					}
				}
				if mt, ok := ty.Underlying().(*types.Map); ok {
					bucket := prog.abi.MapBucket(mt)
					bl := prog.Type(bucket, InGo)
					slot := func(x types.Type, max int64) int64 {
						if s := int64(prog.abi.Size(x)); s > max {
							return int64(prog.PointerSize())
						} else {
							return s
						}
					}
					want := 8 + 8*slot(mt.Key(), abi.MAXKEYSIZE) + 8*slot(mt.Elem(), abi.MAXELEMSIZE) + int64(prog.PointerSize())
					al := int64(prog.PointerSize())
					if a := int64(td.ABITypeAlignment(bl.ll)); a > al {
						al = a
					}
					want = (want + al - 1) / al * al
					if got := int64(prog.abi.Size(bucket)); got != int64(prog.SizeOf(bl)) {
						msgs = append(msgs, fmt.Sprintf("map bucket: descriptor size=%d generated-code size=%d", got, prog.SizeOf(bl)))
					}
					if got := int64(prog.SizeOf(bl)); got < 8+8*slot(mt.Key(), abi.MAXKEYSIZE)+8*slot(mt.Elem(), abi.MAXELEMSIZE)+int64(prog.PointerSize()) {
						msgs = append(msgs, fmt.Sprintf("map bucket smaller (%d) than the slots the runtime addresses", got))
					}
					_ = want
				}
			}()
			if len(msgs) > 0 {
				nviol++
				var cls []string
				if vHasZeroTail(ty, base) {
					cls = append(cls, "zerotail")
				}
				if prog.PointerSize() == 4 && vHas8ByteScalar(ty) {
					cls = append(cls, "align8on32")
				}
				if tg.goarch == "wasm" && vHasUnpaddedStruct(ty, base, false) {
					cls = append(cls, "wasm-stdsizes")
				}
				if len(r.Violations) < 100000 {
					r.Violations = append(r.Violations, map[string]any{"key": key, "class": strings.Join(cls, "+"), "what": tg.goarch + ": " + ty.String() + ": " + strings.Join(msgs, "; ")})
				}
			} else {
				distinct[key] = true
			}
		}
	}
	r.Nontrivial = len(distinct)
	r.Extra["disagreeing"] = nviol
	sort.Slice(r.Violations, func(i, j int) bool { return r.Violations[i]["key"].(string) < r.Violations[j]["key"].(string) })
	r.Samples = []any{all[len(all)/2].String(), all[len(all)-9].String()}
	if p := os.Getenv("VERIF_OUT"); p != "" {
		bs, _ := json.Marshal([]*vresL{r})
		os.WriteFile(p, bs, 0o644)
	}
}

// root-cause predicates used only to attribute disagreements to the recorded known findings
func vHasZeroTail(t types.Type, sz types.Sizes) bool {
	switch u := t.Underlying().(type) {
	case *types.Struct:
		n := u.NumFields()
		if n > 0 && sz.Sizeof(u.Field(n-1).Type()) == 0 && sz.Sizeof(u) > 0 {
			return true
		}
		for i := 0; i < n; i++ {
			if vHasZeroTail(u.Field(i).Type(), sz) {
				return true
			}
		}
	case *types.Array:
		return vHasZeroTail(u.Elem(), sz)
	case *types.Map:
		return vHasZeroTail(u.Key(), sz) || vHasZeroTail(u.Elem(), sz)
	}
	return false
}

func vHas8ByteScalar(t types.Type) bool {
	switch u := t.Underlying().(type) {
	case *types.Basic:
		switch u.Kind() {
		case types.Int64, types.Uint64, types.Float64, types.Complex128:
			return true
		}
	case *types.Struct:
		for i := 0; i < u.NumFields(); i++ {
			if vHas8ByteScalar(u.Field(i).Type()) {
				return true
			}
		}
	case *types.Array:
		return vHas8ByteScalar(u.Elem())
	case *types.Map:
		return vHas8ByteScalar(u.Key()) || vHas8ByteScalar(u.Elem())
	}
	return false
}

// types.StdSizes (what internal/build installs for wasm) does not pad a struct to its alignment: a struct nested in another
// type whose size is not a multiple of its alignment is laid out differently from the LLVM data layout
func vHasUnpaddedStruct(t types.Type, sz types.Sizes, nested bool) bool {
	switch u := t.Underlying().(type) {
	case *types.Struct:
		if nested && sz.Sizeof(u)%sz.Alignof(u) != 0 {
			return true
		}
		for i := 0; i < u.NumFields(); i++ {
			if vHasUnpaddedStruct(u.Field(i).Type(), sz, true) {
				return true
			}
		}
		// the outermost struct's own size is unpadded too
		return sz.Sizeof(u)%sz.Alignof(u) != 0
	case *types.Array:
		return vHasUnpaddedStruct(u.Elem(), sz, true)
	case *types.Map:
		return vHasUnpaddedStruct(u.Key(), sz, true) || vHasUnpaddedStruct(u.Elem(), sz, true)
	}
	return false
}
