#!/usr/bin/env python3
"""C08: (1) in-process: the three layout computations (go/types-based Sizes that fold unsafe.*, LLVM data layout used by generated code,
descriptor table) must agree for every type of a grammar on amd64, arm64, 386, arm, wasm; (2) end-to-end on the host: unsafe constants vs
addresses vs reflect, and vs gcc for C-compatible shapes."""
import json, os, sys
sys.path.insert(0, "/verif/lib"); sys.path.insert(0, os.path.dirname(os.path.abspath(__file__)))
from common import *
import diffcheck, gen
HERE = os.path.dirname(os.path.abspath(__file__))

def inproc(work):
    out = os.path.join(work, "layout.json")
    if os.path.exists(out): os.remove(out)
    r = go_test_overlay("ssa", {"zz_layout_verif_test.go": os.path.join(HERE, "layout_verif_test.go")}, "^TestVerifLayout$", tags=("llvm14",),
                        env_extra={"VERIF_OUT": out}, extra_overlay={os.path.join(REPO, "ssa/zz_verif_opaque.go"): "/verif/tc/src/opaque.go"}, timeout=3000)
    if r.returncode != 0 or not os.path.exists(out):
        return None, r.stdout[-3000:] + r.stderr[-2000:]
    return json.load(open(out))[0], ""

def post(rep, results, a):
    sub, err = inproc(workdir("C08"))
    if sub is None:
        rep.violation("harness:layout", "injected test did not complete:\n" + err); return
    for v in sub["violations"] or []:
        rep.violation(v["key"], v["what"] + (" [root cause: %s]" % v["class"] if v.get("class") else ""))
    rep.coverage["evaluations"] += sub["evaluations"]
    rep.coverage["distinct_nontrivial"] += sub["distinct_nontrivial"]
    rep.coverage["in_process"] = {k: sub[k] for k in ("evaluations", "distinct_nontrivial", "extra")}
    rep.coverage["samples"] += sub["samples"]

if __name__ == "__main__":
    diffcheck.main("C08", "exploration", gen.programs,
        rule="in-process: all types of depth <=3 over 20 base types (every scalar width, complex, string, slice, map, chan, func, interfaces), arrays of length 0/1/3, all structs of "
             "1-3 fields over a 16-type pool (incl. zero-size fields, func, [2]func, nested and arrays of a systematic sample), maps around the 128-byte indirect threshold, on 5 targets: "
             "Sizeof/Alignof/Offsetsof from Program.TypeSizes vs LLVM alloc size/ABI alignment/element offsets vs abi.Builder Size/Align and the map bucket arithmetic. "
             "end-to-end (host): all structs of <=2 (thorough 3) C-compatible fields + Go-only field shapes: unsafe constants vs address differences / array stride vs reflect, and vs gcc "
             "(sizeof/_Alignof/offsetof). non-trivial = (target,type) pairs on which all three computations agree + distinct e2e rows",
        samples=["amd64|struct{A int16; B [2]func(); C struct{}}"],
        assumptions=["for wasm the Sizes installed by internal/build (StdSizes{4,4}) are used, as the compiler does", "bare func types are excluded from the descriptor comparison (function values are closures)"],
        post=post)
