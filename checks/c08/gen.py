"""C08 end-to-end generator: for a family of struct types the compiled program compares (a) unsafe.Sizeof/Alignof/Offsetof constants,
(b) pointer differences and array strides in generated code, (c) reflect sizes/offsets; C-compatible shapes are also compared with gcc."""
import itertools, os, subprocess, sys, tempfile
sys.path.insert(0, "/verif/lib")
from prelude import PRELUDE

SCALARS = [("int8", "int8_t"), ("int16", "int16_t"), ("int32", "int32_t"), ("int64", "int64_t"), ("float32", "float"), ("float64", "double"), ("uintptr", "void*"),
           ("[3]int8", "int8_t %s[3]"), ("complex64", "float _Complex"), ("bool", "_Bool")]
GOONLY = ["string", "[]int8", "func()", "interface{}", "map[int]int", "struct{ X int8; Y int64 }", "[2]func()", "*int32", "chan int"]


def shapes(tier):
    out = []
    k = 3 if tier == "thorough" else 2
    for n in range(1, k + 1):
        for combo in itertools.product(range(len(SCALARS)), repeat=n):
            out.append(("c", [SCALARS[i] for i in combo]))
    for a in GOONLY:
        out.append(("go", [(a, None)]))
        for b in ("int8", "int64"):
            out.append(("go", [(b, None), (a, None)]))
            out.append(("go", [(a, None), (b, None)]))
            out.append(("go", [(b, None), (a, None), ("int8", None)]))
    return out


def c_numbers(cshapes):
    """sizeof/_Alignof/offsetof from the host C compiler for the C-compatible shapes."""
    src = ["#include <stdio.h>\n#include <stdint.h>\n#include <stddef.h>\n"]
    body = []
    for i, fields in cshapes:
        decl = []
        for j, (_, ct) in enumerate(fields):
            decl.append((ct % ("f%d" % j)) if "%s" in ct else "%s f%d" % (ct, j))
        src.append("struct S%d { %s; };\n" % (i, "; ".join(decl)))
        body.append('printf("%d %%zu %%zu%s\\n", sizeof(struct S%d), _Alignof(struct S%d)%s);' % (
            i, "".join(" %zu" for _ in fields), i, i, "".join(", offsetof(struct S%d, f%d)" % (i, j) for j in range(len(fields)))))
    src.append("int main(void) {\n" + "\n".join(body) + "\nreturn 0; }\n")
    d = tempfile.mkdtemp(prefix="c08c", dir="/verif/build/tmp" if os.path.isdir("/verif/build/tmp") else None)
    open(os.path.join(d, "s.c"), "w").write("".join(src))
    subprocess.run(["gcc", "-O0", "-o", os.path.join(d, "s"), os.path.join(d, "s.c")], check=True)
    out = subprocess.run([os.path.join(d, "s")], capture_output=True, text=True, check=True).stdout
    res = {}
    for ln in out.splitlines():
        p = ln.split()
        res[int(p[0])] = [int(x) for x in p[1:]]
    return res


def programs(tier):
    shp = shapes(tier)
    cn = c_numbers([(i, f) for i, (kind, f) in enumerate(shp) if kind == "c"])
    decls, main = [], []
    for i, (kind, fields) in enumerate(shp):
        fl = "; ".join("F%d %s" % (j, gt) for j, (gt, _) in enumerate(fields))
        decls.append("type S%d struct{ %s }" % (i, fl))
        label = "{" + "; ".join(gt for gt, _ in fields) + "}"
        lines = ["\t\tvar v S%d\n\t\tvar arr [2]S%d\n\t\trt := reflect.TypeOf(v)\n\t\tbad := \"\"" % (i, i)]
        lines.append("\t\tif unsafe.Sizeof(v) != uintptr(unsafe.Pointer(&arr[1]))-uintptr(unsafe.Pointer(&arr[0])) {\n\t\t\tbad += \" Sizeof=\" + utoa(uint64(unsafe.Sizeof(v))) + \"/stride=\" + utoa(uint64(uintptr(unsafe.Pointer(&arr[1]))-uintptr(unsafe.Pointer(&arr[0]))))\n\t\t}")
        lines.append("\t\tif unsafe.Sizeof(v) != rt.Size() {\n\t\t\tbad += \" Sizeof=\" + utoa(uint64(unsafe.Sizeof(v))) + \"/reflect.Size=\" + utoa(uint64(rt.Size()))\n\t\t}")
        lines.append("\t\tif unsafe.Alignof(v) != uintptr(rt.Align()) {\n\t\t\tbad += \" Alignof=\" + utoa(uint64(unsafe.Alignof(v))) + \"/reflect.Align=\" + utoa(uint64(rt.Align()))\n\t\t}")
        for j in range(len(fields)):
            lines.append("\t\tif o := uintptr(unsafe.Pointer(&v.F%d)) - uintptr(unsafe.Pointer(&v)); unsafe.Offsetof(v.F%d) != o || rt.Field(%d).Offset != o {\n\t\t\tbad += \" F%d:Offsetof=\" + utoa(uint64(unsafe.Offsetof(v.F%d))) + \"/addr=\" + utoa(uint64(o)) + \"/reflect=\" + utoa(uint64(rt.Field(%d).Offset))\n\t\t}" % (j, j, j, j, j, j))
        # the same constants evaluated inside a generic instance (folded later, by a different path in the compiler)
        lines.append("\t\tif gs, ga := gSizeAlign[S%d](); gs != unsafe.Sizeof(v) || ga != unsafe.Alignof(v) {\n\t\t\tbad += \" generic:Sizeof=\" + utoa(uint64(gs)) + \"/Alignof=\" + utoa(uint64(ga)) + \" const:\" + utoa(uint64(unsafe.Sizeof(v))) + \"/\" + utoa(uint64(unsafe.Alignof(v)))\n\t\t}" % i)
        lines.append("\t\tif ga := gFieldAlign(v.F0); ga != unsafe.Alignof(v.F0) {\n\t\t\tbad += \" generic:Alignof(F0)=\" + utoa(uint64(ga)) + \"/\" + utoa(uint64(unsafe.Alignof(v.F0)))\n\t\t}")
        if kind == "c":
            nums = cn[i]
            lines.append("\t\tif unsafe.Sizeof(v) != %d || unsafe.Alignof(v) != %d%s {\n\t\t\tbad += \" differs-from-C(size %d align %d offsets %s)\"\n\t\t}" % (
                nums[0], nums[1], "".join(" || unsafe.Offsetof(v.F%d) != %d" % (j, nums[2 + j]) for j in range(len(fields))), nums[0], nums[1], nums[2:]))
        lines.append("\t\tif bad == \"\" {\n\t\t\tbad = \" ok\"\n\t\t}\n\t\temit(\"S%d%s\", bad)" % (i, label.replace('"', "'")))
        main.append("\tcases = append(cases, func() {\n" + "\n".join(lines) + "\n\t})")
    decls.append("""
func gSizeAlign[T any]() (uintptr, uintptr) {
	var v T
	return unsafe.Sizeof(v), unsafe.Alignof(v)
}

func gFieldAlign[T any](v T) uintptr { return unsafe.Alignof(v) }

// struct types built at run time: their descriptors are computed by the reflect package, not by the compiler
func structOf(kinds string) reflect.Type {
	var fs []reflect.StructField
	for i, k := range kinds {
		var t reflect.Type
		switch k {
		case 'b':
			t = reflect.TypeOf(int8(0))
		case 'h':
			t = reflect.TypeOf(int16(0))
		case 'w':
			t = reflect.TypeOf(int32(0))
		case 'q':
			t = reflect.TypeOf(int64(0))
		case 'f':
			t = reflect.TypeOf(float32(0))
		case 's':
			t = reflect.TypeOf("")
		case 'z':
			t = reflect.TypeOf([0]uint64{})
		case 'y':
			t = reflect.TypeOf([0]int16{})
		case 'e':
			t = reflect.TypeOf(struct{}{})
		case 'a':
			t = reflect.TypeOf([3]int8{})
		}
		fs = append(fs, reflect.StructField{Name: "F" + string(rune('A'+i)), Type: t})
	}
	return reflect.StructOf(fs)
}

func describeRT(kinds string) string {
	t := structOf(kinds)
	s := "size=" + utoa(uint64(t.Size())) + " align=" + utoa(uint64(t.Align())) + " falign=" + utoa(uint64(t.FieldAlign())) + " off="
	for i := 0; i < t.NumField(); i++ {
		s += utoa(uint64(t.Field(i).Offset)) + ","
	}
	at := reflect.ArrayOf(3, t)
	s += " arr3=" + utoa(uint64(at.Size()))
	// fill an array of it through reflection and read it back: strides and offsets must be consistent
	av := reflect.New(at).Elem()
	for i := 0; i < 3; i++ {
		for j := 0; j < t.NumField(); j++ {
			f := av.Index(i).Field(j)
			if f.Kind() >= reflect.Int8 && f.Kind() <= reflect.Int64 {
				f.SetInt(int64(10*i + j + 1))
			}
		}
	}
	s += " read="
	for i := 0; i < 3; i++ {
		for j := 0; j < t.NumField(); j++ {
			f := av.Index(i).Field(j)
			if f.Kind() >= reflect.Int8 && f.Kind() <= reflect.Int64 {
				s += itoa(f.Int()) + ","
			}
		}
	}
	return s
}
""")
    alpha = "bhwqfszyea"
    rts = [a for a in alpha] + [a + b for a in alpha for b in alpha] + [a + b + c for a in "bq" for b in "zyeh" for c in "bwz"]
    for k in rts:
        main.append("\tcases = append(cases, func() { emit(\"structof/%s\", describeRT(\"%s\")) })" % (k, k))
    src = PRELUDE.replace('import (\n\t"os"\n\t"unsafe"\n)', 'import (\n\t"os"\n\t"reflect"\n\t"unsafe"\n)') + "\nvar cases []func()\n\n" + "\n".join(decls) + "\n\nfunc main() {\n" + "\n".join(main) + "\n\trunAll(cases)\n}\n"
    return {"layout": src}


if __name__ == "__main__":
    for k, v in programs("quick").items():
        d = os.path.join(sys.argv[1], k)
        os.makedirs(d, exist_ok=True)
        open(os.path.join(d, "main.go"), "w").write(v)
        open(os.path.join(d, "go.mod"), "w").write("module vt\n\ngo 1.24\n")
        print(k, len(v))
