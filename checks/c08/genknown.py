#!/usr/bin/env python3
"""MANUAL tool: rewrites known/C08_<rootcause>.txt from the in-process run (only disagreements attributed to a confirmed root cause are listed)."""
import os, sys
sys.path.insert(0, "/verif/lib"); sys.path.insert(0, os.path.dirname(os.path.abspath(__file__)))
from common import *
import run
sub, err = run.inproc(workdir("C08"))
sets = {}
for v in sub["violations"]:
    c = (v.get("class") or "").split("+")[0]
    if not c:
        print("UNATTRIBUTED", v["what"][:200]); continue
    sets.setdefault(c, set()).add(v["key"])
for c, s in sets.items():
    with open("/verif/known/C08_%s.txt" % c.replace("-", "_"), "w") as f:
        for k in sorted(s): f.write(k + "\n")
    print(c, len(s))
