#!/usr/bin/env python3
"""C15: reflect queries and fmt verbs over a family of 49 values/types, in four program variants that drive the compiler's reflect-usage
pruning differently; text must equal go1.24.0."""
import os, sys
sys.path.insert(0, "/verif/lib"); sys.path.insert(0, os.path.dirname(os.path.abspath(__file__)))
import diffcheck, gen


def canon(obs):
    """llgo reports the import path of the main package ("vt") where Go says "main" (recorded known finding pkgpath/...): compare modulo that spelling
    everywhere except in the dedicated probe."""
    if obs.startswith("RAWPKG:"):
        return obs
    return obs.replace('pkg="vt"', 'pkg="main"').replace("vt.", "main.")
diffcheck.main("C15", "exploration", gen.programs,
    rule="values: 49 (every kind: scalars, strings, byte slices, nil and non-nil slices/maps/pointers, arrays incl. length 0, unnamed and tagged structs, named types with String/other methods "
         "on value and pointer receivers, embedding by value and by pointer (also nil), generic instances incl. nested, interfaces (nil and non-nil), recursive pointer types, unexported fields, "
         "errors, channels, funcs, named func/chan/map/array/slice types, containers of interfaces); for each: the full reflect.Type description (kind, name, string, pkg path, comparable, "
         "size/align/offsets unless func-containing, fields with tags/embedding/index, element/key types, in/out/variadic, methods), reflect.Value facts and round trips (Interface, Set, Convert, "
         "DeepEqual), 11 fmt verbs; plus method calls found through reflection, an assignable/convertible/implements matrix over 14 types, Set through embedded fields, DeepEqual on cyclic data. "
         "4 variants: no method reflection, Method(i), MethodByName(constant), MethodByName(variable). case = one value x aspect",
    samples=["fmt/wrap %v={{3 L4 m} L5 0xADDR []} %+v={base:{ID:3 Lvl:L4 note:m} Extra:L5 P:0xADDR tags:[]} ..."],
    assumptions=["printed addresses are masked; sizes/offsets of func-containing types are excluded (documented two-word function values)"], workers=4, canon=canon)
