"""C15 generator: reflect queries and fmt verbs over a type/value family, in four program variants that use method reflection differently
(the compiler prunes method tables from observed reflect usage); text must equal go1.24.0 except for the documented two-word-func differences."""
import sys
sys.path.insert(0, "/verif/lib")

DECLS = r'''
type Celsius float64

func (c Celsius) String() string { return "C!" }

type Level int

func (l Level) String() string  { return "L" + string(rune('0'+int(l))) }
func (l *Level) Bump()          { *l++ }
func (l Level) Add(n int) Level { return l + Level(n) }

type base struct {
	ID   int `json:"id" vt:"1"`
	Lvl  Level
	note string
}

func (b base) Describe() string { return "base" }
func (b *base) SetID(n int)     { b.ID = n }

type Wrap struct {
	base
	Extra Level
	P     *base
	tags  []string `vt:"t"`
}

type PWrap struct {
	*base
	N int
}

type Pair[A, B any] struct {
	First  A
	Second B
}

func (p Pair[A, B]) Swap() Pair[B, A] { return Pair[B, A]{p.Second, p.First} }

type Shape interface {
	Area() float64
	Name() string
}

type Sq struct{ S float64 }

func (s Sq) Area() float64 { return s.S * s.S }
func (s Sq) Name() string  { return "sq" }

type Tree struct {
	L, R *Tree
	V    int
}

type unexp struct{ a, b int }

type Err struct{ Code int }

func (e *Err) Error() string { return "err!" }

type Fn func(int, ...string) (bool, error)
type Ch <-chan []int
type M map[string][]Pair[int, string]
type Arr [3]uint8
type Bytes []byte
'''

# (label, Go expression of the value)
VALUES = [
    ("bool", "true"), ("int8", "int8(-5)"), ("uint16", "uint16(65535)"), ("int64", "int64(-1) << 62"), ("uintptr", "uintptr(0xdead)"),
    ("float32", "float32(1.5)"), ("float64", "2.5e10"), ("complex", "complex(1.5, -2)"), ("string", "\"h\\u00e9 \\\"q\\\"\\n\""), ("emptystr", "\"\""),
    ("bytes", "[]byte(\"ab\\x00\")"), ("nilslice", "[]int(nil)"), ("slice", "[]int{1, 2}"), ("arr", "[2]string{\"a\", \"b\"}"), ("arr0", "[0]int{}"),
    ("map", "map[string]int{\"k\": 1}"), ("nilmap", "map[int]bool(nil)"), ("ptr", "&Sq{2}"), ("nilptr", "(*Sq)(nil)"), ("ptrptr", "func() **int { x := 3; p := &x; return &p }()"),
    ("struct", "struct{ A int; b string }{1, \"x\"}"), ("emptystruct", "struct{}{}"), ("tagged", "struct { A int `k:\"v\"`; B bool \"raw\" }{1, true}"),
    ("celsius", "Celsius(36.6)"), ("level", "Level(3)"), ("levelptr", "func() *Level { l := Level(4); return &l }()"),
    ("base", "base{1, 2, \"n\"}"), ("wrap", "Wrap{base: base{3, 4, \"m\"}, Extra: 5, P: &base{ID: 6}}"), ("pwrap", "PWrap{&base{7, 8, \"p\"}, 9}"), ("pwrapnil", "PWrap{nil, 1}"),
    ("pair", "Pair[int, string]{1, \"one\"}"), ("pairnest", "Pair[Level, Pair[bool, []int]]{2, Pair[bool, []int]{true, []int{1}}}"),
    ("shape", "Shape(Sq{3})"), ("nilshape", "Shape(nil)"), ("anyint", "any(7)"), ("tree", "&Tree{L: &Tree{V: 1}, V: 2}"), ("unexp", "unexp{1, 2}"),
    ("err", "&Err{5}"), ("nilerr", "error(nil)"), ("named_m", "M{\"a\": {{1, \"x\"}}}"), ("named_arr", "Arr{1, 2, 3}"), ("named_bytes", "Bytes(\"hi\")"),
    ("chan", "make(chan int, 1)"), ("named_ch", "Ch(nil)"), ("func", "func(int) string { return \"\" }"), ("named_fn", "Fn(nil)"),
    # unnamed structs that differ only in whether a field is embedded or merely spelled like its type (and pointer forms): described side by side
    ("emb_sq", "struct{ Sq }{Sq{2}}"), ("named_sq", "struct{ Sq Sq }{Sq{2}}"), ("emb_psq", "struct{ *Sq }{&Sq{3}}"), ("named_psq", "struct{ Sq *Sq }{&Sq{3}}"),
    ("emb_two", "struct{ Sq; N int }{Sq{4}, 1}"), ("named_two", "struct{ Sq Sq; N int }{Sq{4}, 1}"),
    ("slice_of_shape", "[]Shape{Sq{1}, nil}"), ("map_any", "map[any]any{1: \"a\", \"b\": 2.5}"), ("iface_struct", "struct{ S Shape; E error; A any }{Sq{1}, nil, 3}"),
]

MAIN = r'''
package main

import (
	"fmt"
	"os"
	"reflect"
	"sort"
	"strings"
)

%(decls)s

var out strings.Builder

func emit(id, obs string) {
	fmt.Fprintf(os.Stdout, "CASE %%s %%s\n", id, strings.ReplaceAll(maskAddr(obs), "\n", "\\n"))
}

// maskAddr replaces printed addresses (0x followed by at least 6 hex digits) - they are not specified behaviour
func maskAddr(s string) string {
	var b strings.Builder
	for i := 0; i < len(s); {
		if s[i] == '0' && i+1 < len(s) && s[i+1] == 'x' {
			j := i + 2
			for j < len(s) && strings.IndexByte("0123456789abcdef", s[j]) >= 0 {
				j++
			}
			if j-i-2 >= 6 {
				b.WriteString("0xADDR")
				i = j
				continue
			}
		}
		b.WriteByte(s[i])
		i++
	}
	return b.String()
}

func isFuncy(t reflect.Type) bool { return isFuncy1(t, map[reflect.Type]bool{}) }

func isFuncy1(t reflect.Type, seen map[reflect.Type]bool) bool {
	// function values occupy two words under llgo: sizes and addresses of func-containing types are documented differences
	if seen[t] {
		return false
	}
	seen[t] = true
	switch t.Kind() {
	case reflect.Func:
		return true
	case reflect.Struct:
		for i := 0; i < t.NumField(); i++ {
			if isFuncy1(t.Field(i).Type, seen) {
				return true
			}
		}
	case reflect.Array, reflect.Slice, reflect.Pointer, reflect.Chan:
		return isFuncy1(t.Elem(), seen)
	case reflect.Map:
		return isFuncy1(t.Key(), seen) || isFuncy1(t.Elem(), seen)
	}
	return false
}

func describeType(t reflect.Type, depth int) string {
	if t == nil {
		return "<nil type>"
	}
	s := fmt.Sprintf("kind=%%v name=%%q str=%%q pkg=%%q cmp=%%v", t.Kind(), t.Name(), t.String(), t.PkgPath(), t.Comparable())
	if !isFuncy(t) {
		s += fmt.Sprintf(" size=%%d align=%%d", t.Size(), t.Align())
	}
	switch t.Kind() {
	case reflect.Struct:
		s += fmt.Sprintf(" nfield=%%d", t.NumField())
		for i := 0; i < t.NumField(); i++ {
			f := t.Field(i)
			s += fmt.Sprintf(" {%%s %%q anon=%%v idx=%%v type=%%s pkg=%%q exp=%%v", f.Name, f.Tag, f.Anonymous, f.Index, f.Type, f.PkgPath, f.IsExported())
			if !isFuncy(t) {
				s += fmt.Sprintf(" off=%%d", f.Offset)
			}
			s += "}"
		}
	case reflect.Array:
		s += fmt.Sprintf(" len=%%d elem=%%s", t.Len(), t.Elem())
	case reflect.Slice, reflect.Pointer:
		s += fmt.Sprintf(" elem=%%s", t.Elem())
	case reflect.Chan:
		s += fmt.Sprintf(" elem=%%s dir=%%v", t.Elem(), t.ChanDir())
	case reflect.Map:
		s += fmt.Sprintf(" key=%%s elem=%%s", t.Key(), t.Elem())
	case reflect.Func:
		s += fmt.Sprintf(" in=%%d out=%%d variadic=%%v", t.NumIn(), t.NumOut(), t.IsVariadic())
		for i := 0; i < t.NumIn(); i++ {
			s += " in" + fmt.Sprint(i) + "=" + t.In(i).String()
		}
		for i := 0; i < t.NumOut(); i++ {
			s += " out" + fmt.Sprint(i) + "=" + t.Out(i).String()
		}
	case reflect.Interface:
		s += fmt.Sprintf(" nmethod=%%d", t.NumMethod())
	}
	%(methodquery)s
	if depth > 0 && (t.Kind() == reflect.Pointer || t.Kind() == reflect.Slice) {
		s += " | elem: " + describeType(t.Elem(), depth-1)
	}
	return s
}

func describeValue(x any) string {
	v := reflect.ValueOf(x)
	if !v.IsValid() {
		return "invalid"
	}
	s := fmt.Sprintf("kind=%%v canaddr=%%v canset=%%v", v.Kind(), v.CanAddr(), v.CanSet())
	switch v.Kind() {
	case reflect.Slice, reflect.Map, reflect.Chan, reflect.Array, reflect.String:
		s += fmt.Sprintf(" len=%%d", v.Len())
	}
	switch v.Kind() {
	case reflect.Slice, reflect.Map, reflect.Chan, reflect.Pointer, reflect.Func, reflect.Interface:
		s += fmt.Sprintf(" isnil=%%v", v.IsNil())
	}
	s += fmt.Sprintf(" iszero=%%v", v.IsZero())
	if v.Kind() == reflect.Struct {
		for i := 0; i < v.NumField(); i++ {
			f := v.Field(i)
			s += fmt.Sprintf(" f%%d(caniface=%%v canset=%%v kind=%%v)", i, f.CanInterface(), f.CanSet(), f.Kind())
		}
	}
	if v.Kind() == reflect.Map {
		var ks []string
		for _, k := range v.MapKeys() {
			ks = append(ks, fmt.Sprint(k.Interface()))
		}
		sort.Strings(ks)
		s += " keys=" + strings.Join(ks, ",")
	}
	// round trips: Interface, a settable copy, Convert to its own type, DeepEqual
	cp := reflect.New(v.Type()).Elem()
	cp.Set(v)
	s += fmt.Sprintf(" deq(self)=%%v deq(copy)=%%v deq(zero)=%%v", reflect.DeepEqual(x, x), reflect.DeepEqual(x, cp.Interface()), reflect.DeepEqual(x, reflect.Zero(v.Type()).Interface()))
	return s
}

// Convert round trips: to the value's own type and between the numeric kinds
func describeConvert(x any) string {
	v := reflect.ValueOf(x)
	if !v.IsValid() {
		return "invalid"
	}
	s := ""
	if v.Type().ConvertibleTo(v.Type()) {
		s += fmt.Sprintf("self=%%v", reflect.DeepEqual(v.Convert(v.Type()).Interface(), x))
	}
	for _, t := range []reflect.Type{reflect.TypeOf(int64(0)), reflect.TypeOf(uint8(0)), reflect.TypeOf(float32(0)), reflect.TypeOf(float64(0)), reflect.TypeOf(""), reflect.TypeOf(Level(0))} {
		if v.CanConvert(t) {
			s += fmt.Sprintf(" ->%%s=%%v", t, v.Convert(t).Interface())
		}
	}
	return s
}

func safe(f func() string) (res string) {
	defer func() {
		if r := recover(); r != nil {
			res = "PANIC"
		}
	}()
	return f()
}

func verbs(x any) string {
	var parts []string
	for _, vb := range []string{"%%v", "%%+v", "%%#v", "%%T", "%%d", "%%x", "%%s", "%%q", "%%t", "%%5.2f", "%%08b"} {
		if vb == "%%#v" || vb == "%%v" || vb == "%%+v" || vb == "%%x" || vb == "%%d" {
			// pointers, channels and funcs print addresses with these verbs
			k := reflect.Invalid
			if x != nil {
				k = reflect.TypeOf(x).Kind()
			}
			if k == reflect.Chan || k == reflect.Func || k == reflect.UnsafePointer || (k == reflect.Pointer && (vb == "%%x" || vb == "%%d")) {
				continue
			}
		}
		if x != nil {
			k := reflect.TypeOf(x).Kind()
			_ = k
			if (vb == "%%08b" || vb == "%%d" || vb == "%%x" || vb == "%%5.2f") && hasPtrInside(x) {
				continue
			}
		}
		parts = append(parts, vb+"="+safe(func() string { return fmt.Sprintf(vb, x) }))
	}
	return strings.Join(parts, " ")
}

// values through which %%d/%%x/%%b would print an address
func hasPtrInside(x any) bool { return typeHasPtr(reflect.TypeOf(x), map[reflect.Type]bool{}) }

func typeHasPtr(t reflect.Type, seen map[reflect.Type]bool) bool {
	if seen[t] {
		return false
	}
	seen[t] = true
	switch t.Kind() {
	case reflect.Pointer, reflect.Chan, reflect.Func, reflect.UnsafePointer, reflect.Interface:
		return true
	case reflect.Struct:
		for i := 0; i < t.NumField(); i++ {
			if typeHasPtr(t.Field(i).Type, seen) {
				return true
			}
		}
	case reflect.Array, reflect.Slice:
		return typeHasPtr(t.Elem(), seen)
	case reflect.Map:
		return typeHasPtr(t.Key(), seen) || typeHasPtr(t.Elem(), seen)
	}
	return false
}

func hasAddr(x any) bool {
	s := fmt.Sprintf("%%#v", x)
	return strings.Contains(s, "0x") || strings.Contains(s, "0xc")
}

func main() {
	start := 0
	if len(os.Args) > 1 {
		fmt.Sscan(os.Args[1], &start)
	}
	cases := []func(){
%(cases)s
	}
	for i := start; i < len(cases); i++ {
		fmt.Printf("NEXT %%d\n", i)
		cases[i]()
	}
	fmt.Println("ALLDONE")
}
'''

METHOD_QUERIES = {
    "nomethods": "",
    "byindex": '''s += fmt.Sprintf(" nmethod=%d", t.NumMethod())
	for i := 0; i < t.NumMethod(); i++ {
		m := t.Method(i)
		s += fmt.Sprintf(" m%d=%s:%s", i, m.Name, m.Type)
	}''',
    "byconstname": '''if m, ok := t.MethodByName("String"); ok {
		s += " String:" + m.Type.String()
	}
	if m, ok := t.MethodByName("Describe"); ok {
		s += " Describe:" + m.Type.String()
	}''',
    "byvarname": '''for _, name := range methodNames {
		if m, ok := t.MethodByName(name); ok {
			s += " " + name + ":" + m.Type.String()
		}
	}''',
}


def prog(variant):
    cases = []
    for lab, expr in VALUES:
        cases.append("\t\tfunc() { var x any = %s; emit(\"type/%s\", safe(func() string { return describeType(reflect.TypeOf(x), 1) })) }," % (expr, lab))
        cases.append("\t\tfunc() { var x any = %s; emit(\"value/%s\", safe(func() string { return describeValue(x) })) }," % (expr, lab))
        cases.append("\t\tfunc() { var x any = %s; emit(\"fmt/%s\", verbs(x)) }," % (expr, lab))
        if lab in ("bool", "int8", "uint16", "int64", "uintptr", "float32", "float64", "complex", "string", "bytes", "celsius", "level", "anyint", "named_bytes", "named_arr", "struct", "pair"):
            cases.append("\t\tfunc() { var x any = %s; emit(\"convert/%s\", safe(func() string { return describeConvert(x) })) }," % (expr, lab))
    extra = ""
    if variant in ("byindex", "byvarname", "byconstname"):
        # calling methods found through reflection
        call = {
            "byindex": 'reflect.ValueOf(Level(2)).Method(0).Call([]reflect.Value{reflect.ValueOf(3)})[0].Interface()',
            "byconstname": 'reflect.ValueOf(Level(2)).MethodByName("Add").Call([]reflect.Value{reflect.ValueOf(3)})[0].Interface()',
            "byvarname": 'reflect.ValueOf(Level(2)).MethodByName(methodNames[0]).Call([]reflect.Value{reflect.ValueOf(3)})[0].Interface()',
        }[variant]
        cases.append("\t\tfunc() { emit(\"call/level.add\", safe(func() string { return fmt.Sprint(%s) })) }," % call)
        cases.append("\t\tfunc() { w := Wrap{base: base{ID: 1}}; emit(\"call/promoted\", safe(func() string { return fmt.Sprint(reflect.ValueOf(w).MethodByName(%s).Call(nil)[0]) })) }," % ("\"Describe\"" if variant != "byvarname" else "methodNames[1]"))
        cases.append("\t\tfunc() { w := &Wrap{}; emit(\"call/ptr-promoted\", safe(func() string { reflect.ValueOf(w).MethodByName(%s).Call([]reflect.Value{reflect.ValueOf(42)}); return fmt.Sprint(w.ID) })) }," % ("\"SetID\"" if variant != "byvarname" else "methodNames[2]"))
    cases.append("\t\tfunc() { emit(\"pkgpath/main-package-types\", \"RAWPKG:\"+reflect.TypeOf(Level(0)).PkgPath()+\":\"+reflect.TypeOf(Pair[Level, int]{}).Name()) },")
    # assignability / convertibility matrix over a small type set, Set through reflection on embedded/unexported fields
    cases.append('''		func() {
			ts := []reflect.Type{reflect.TypeOf(0), reflect.TypeOf(Level(0)), reflect.TypeOf(Celsius(0)), reflect.TypeOf(""), reflect.TypeOf([]byte(nil)), reflect.TypeOf(Bytes(nil)),
				reflect.TypeOf((*Shape)(nil)).Elem(), reflect.TypeOf(Sq{}), reflect.TypeOf(&Sq{}), reflect.TypeOf((*error)(nil)).Elem(), reflect.TypeOf(&Err{}), reflect.TypeOf((*any)(nil)).Elem(), reflect.TypeOf(Arr{}), reflect.TypeOf([3]uint8{})}
			s := ""
			for _, a := range ts {
				for _, b := range ts {
					s += fmt.Sprintf("%v%v%v ", b2(a.AssignableTo(b)), b2(a.ConvertibleTo(b)), b2(a.Implements(ifaceOr(b))))
				}
				s += "/ "
			}
			emit("matrix/assign-convert-implements", s)
		},
		func() {
			w := Wrap{base: base{1, 2, "n"}, Extra: 3}
			v := reflect.ValueOf(&w).Elem()
			s := safe(func() string { v.Field(0).Field(0).SetInt(10); v.FieldByName("Lvl").SetInt(7); v.FieldByName("Extra").Set(reflect.ValueOf(Level(9))); return fmt.Sprintf("%+v", w) })
			s += " | unexported-set=" + safe(func() string { v.Field(0).Field(2).SetString("x"); return "no-panic" })
			s += " | " + safe(func() string { return fmt.Sprint(v.FieldByName("ID").Interface(), v.FieldByIndex([]int{0, 1}).Interface()) })
			emit("set/embedded", s)
		},
		func() {
			a, b := &Tree{L: &Tree{V: 1}, V: 2}, &Tree{L: &Tree{V: 1}, V: 2}
			c := &Tree{V: 2}
			c.L = c
			emit("deepequal/trees", fmt.Sprint(reflect.DeepEqual(a, b), reflect.DeepEqual(a, c), reflect.DeepEqual(c, c), reflect.DeepEqual(map[string][]int{"a": {1}}, map[string][]int{"a": {1}}), reflect.DeepEqual([]int(nil), []int{}), reflect.DeepEqual(Celsius(1), 1.0)))
		},''')
    decls = DECLS + "\nvar methodNames = []string{\"Add\", \"Describe\", \"SetID\", \"String\"}\n\nfunc b2(b bool) string {\n\tif b {\n\t\treturn \"1\"\n\t}\n\treturn \"0\"\n}\n\nfunc ifaceOr(t reflect.Type) reflect.Type {\n\tif t.Kind() == reflect.Interface {\n\t\treturn t\n\t}\n\treturn reflect.TypeOf((*any)(nil)).Elem()\n}\n"
    return MAIN.lstrip() % dict(decls=decls, methodquery=METHOD_QUERIES[variant], cases="\n".join(cases))


def programs(tier):
    return {"rf_" + v: prog(v) for v in METHOD_QUERIES}


if __name__ == "__main__":
    import os
    for k, v in programs("quick").items():
        d = os.path.join(sys.argv[1], k)
        os.makedirs(d, exist_ok=True)
        open(os.path.join(d, "main.go"), "w").write(v)
        open(os.path.join(d, "go.mod"), "w").write("module vt\n\ngo 1.24\n")
        print(k, len(v))
