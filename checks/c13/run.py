#!/usr/bin/env python3
"""C13: explicit-state search over edit histories of a generated multi-package module. After every (edit, rebuild) step the
program built with the cache must print exactly what the version vector of its inputs dictates (= what a clean build prints);
two clean builds of the same vector must emit byte-identical IR for every package."""
import argparse, hashlib, itertools, json, os, shutil, subprocess, sys, time
sys.path.insert(0, "/verif/lib")
from common import *

INPUTS = ["main", "a", "b", "embed", "cfile", "header", "tag", "decl", "x", "abi", "trace", "cgoh", "cgoc", "ext"]          # components of the version vector
EVENTS = ["edit-main", "edit-a", "edit-b", "edit-embed", "edit-cfile", "edit-header", "edit-decl", "toggle-tag", "touch-b", "noop", "clear-cache", "edit-b-samesize", "set-x", "toggle-abi", "toggle-trace", "edit-cgo-header", "edit-cgo-c", "edit-ext"]
THOROUGH_EVENTS = EVENTS + ["edit-b-keep-mtime"]


def files(vec):
    v = vec
    return {
        "go.mod": "module vt\n\ngo 1.24\n\nrequire ext v0.0.0\n\nreplace ext => ../ext\n",
        # a dependency in another module, replaced by a local directory: its constant, type layout and code are compiled into / called from b
        "../ext/go.mod": "module ext\n\ngo 1.24\n",
        "../ext/e/e.go": "package e\n\nconst Ver = %d\n\ntype Rec struct{ Pad [%d]byte }\n\n//go:noinline\nfunc Get() int { return %d }\n" % (v["ext"], v["ext"], v["ext"]),
        # a cgo package with a header and a C file of its own
        "c/c.go": 'package c\n\n/*\n#include "lim.h"\nint vt_cgo_c(void);\n*/\nimport "C"\n\nfunc Report() {\n\tprintln("cgoh", int(C.VT_LIM))\n\tprintln("cgoc", int(C.vt_cgo_c()))\n}\n',
        "c/impl.c": '#include "lim.h"\nint vt_cgo_c(void) { return %d; }\n' % v["cgoc"],
        "c/lim.h": "#ifndef VT_LIM\n#define VT_LIM %d\n#endif\n" % v["cgoh"],
        "main.go": 'package main\n\nimport "vt/a"\n\nconst mainVer = %d\n\nfunc main() {\n\tprintln("main", mainVer)\n\ta.Report()\n\tprintln("sum", a.Sum(a.Big{A: 1, B: 20, C: 300, D: 4000, F: 0.5}, 7))\n}\n' % v["main"],
        "a/a.go": 'package a\n\nimport (\n\t_ "unsafe"\n\n\t"vt/b"\n\t"vt/c"\n)\n\nconst LLGoFiles = "wrap/wrap.c"\n\n//go:linkname cver C.vt_cver\nfunc cver() int32\n\n//go:linkname hver C.vt_hver\nfunc hver() int32\n\n'
                  'const aVer = %d\n\nfunc Report() {\n\tprintln("a", aVer)\n\tprintln("cfile", cver())\n\tprintln("header", hver())\n\tc.Report()\n\tb.Report()\n}\n\ntype Big = b.Big\n\n//go:noinline\nfunc Sum(x Big, k int) int { return b.Sum(k, x) + k }\n' % v["a"],
        "a/wrap/wrap.c": '#include "wrap.h"\nint vt_cver(void) { return %d; }\nint vt_hver(void) { return VT_HVER; }\n' % v["cfile"],
        "a/wrap/wrap.h": "#define VT_HVER %d\n" % v["header"],
        "b/b.go": 'package b\n\nimport (\n\t_ "embed"\n\n\t"ext/e"\n\t"vt/d"\n)\n\n//go:embed data.txt\nvar data string\n\nconst bVer = %d\n\nfunc Report() {\n\tprintln("b", bVer)\n\tprintln("embed", data)\n\tprintln("tag", tagVer)\n\tprintln("decl", d.Ver, len(d.Rec{}.Pad))\n\tprintln("x", xVar)\n\tprintln("ext", e.Ver, len(e.Rec{}.Pad), e.Get())\n}\n\nvar xVar = "unset"\n\ntype Big struct {\n\tA, B, C, D int64\n\tF float64\n}\n\n//go:noinline\nfunc Sum(k int, x Big) int { return int(x.A+x.B+x.C+x.D) + int(x.F*2) + k }\n' % v["b"],
        # a declaration-only package (the usual shape of llgo binding packages): emits no code of its own, its constants and layouts are compiled into its importers
        "d/d.go": 'package d\n\nconst LLGoPackage = "decl"\n\nconst Ver = %d\n\ntype Rec struct{ Pad [%d]byte }\n' % (v["decl"], v["decl"]),
        "b/data.txt": "e%d" % v["embed"],
        "b/tag_on.go": "//go:build vtag\n\npackage b\n\nconst tagVer = 1\n",
        "b/tag_off.go": "//go:build !vtag\n\npackage b\n\nconst tagVer = 0\n",
    }


def expected(vec):
    return "main %d\na %d\ncfile %d\nheader %d\ncgoh %d\ncgoc %d\nb %d\nembed e%d\ntag %d\ndecl %d %d\nx x%d\next %d %d %d\nsum 4336\n" % (vec["main"], vec["a"], vec["cfile"], vec["header"], vec["cgoh"], vec["cgoc"], vec["b"], vec["embed"], vec["tag"], vec["decl"], vec["decl"], vec["x"], vec["ext"], vec["ext"], vec["ext"]) + "trace vt/a.Report %d\ntrace vt/b.Report %d\n" % (vec["trace"], vec["trace"])


class Undecided(Exception):
    """the harness could not decide a step (a build that did not finish in time): never a violation, the run reports exhaustive:false"""


class World:
    def __init__(self, root, template=None):
        self.root = root
        self.src = os.path.join(root, "src")
        self.xdg = os.path.join(root, "xdg")
        self.vec = {k: 1 for k in INPUTS}
        self.vec["tag"] = 0
        self.vec["abi"] = 2
        self.vec["trace"] = 0
        self.clock = 1_700_000_000
        os.makedirs(self.src)
        if template:
            # start from a cache that already holds the runtime/std archives (hard-linked copy: cache files are replaced by rename, never edited in place)
            subprocess.run(["cp", "-al", template, self.xdg], check=True)
        else:
            os.makedirs(self.xdg)
        for rel, txt in files(self.vec).items():
            self.write(rel, txt)

    def write(self, rel, txt, keep_mtime=False):
        p = os.path.join(self.src, rel)
        os.makedirs(os.path.dirname(p), exist_ok=True)
        old = os.stat(p).st_mtime if os.path.exists(p) else None
        with open(p, "w") as f:
            f.write(txt)
        self.clock += 10   # explicit, strictly increasing mtimes: no dependence on the wall clock's granularity
        t = old if (keep_mtime and old is not None) else self.clock
        os.utime(p, (t, t))

    def apply(self, ev):
        v = self.vec
        bump = {"edit-main": ("main", "main.go"), "edit-a": ("a", "a/a.go"), "edit-b": ("b", "b/b.go"), "edit-embed": ("embed", "b/data.txt"),
                "edit-decl": ("decl", "d/d.go"), "edit-cfile": ("cfile", "a/wrap/wrap.c"), "edit-header": ("header", "a/wrap/wrap.h"), "edit-b-samesize": ("b", "b/b.go"), "edit-b-keep-mtime": ("b", "b/b.go"),
                "edit-cgo-header": ("cgoh", "c/lim.h"), "edit-cgo-c": ("cgoc", "c/impl.c"), "edit-ext": ("ext", "../ext/e/e.go")}
        if ev in bump:
            k, rel = bump[ev]
            v[k] = v[k] % 8 + 1          # single digit: the file keeps its size
            self.write(rel, files(v)[rel], keep_mtime=(ev == "edit-b-keep-mtime"))
        elif ev == "toggle-tag":
            v["tag"] = 1 - v["tag"]
        elif ev == "set-x":
            v["x"] = v["x"] % 8 + 1
        elif ev == "toggle-abi":
            v["abi"] = 0 if v["abi"] == 2 else 2
        elif ev == "toggle-trace":
            v["trace"] = 1 - v["trace"]
        elif ev == "touch-b":
            self.write("b/b.go", files(v)["b/b.go"])
        elif ev == "clear-cache":
            shutil.rmtree(self.xdg)
            os.makedirs(self.xdg)
        elif ev == "noop":
            pass

    def build_run(self, cache=True, genll=False, gocache=None):
        e = llgo_env("A")
        e["XDG_CACHE_HOME"] = self.xdg
        if not cache:
            e["LLGO_BUILD_CACHE"] = "0"
        if gocache:
            e["GOCACHE"] = gocache
        exe = os.path.join(self.root, "prog")
        cmd = [llgo_path(), "build", "-O0", "-v", "-o", exe]
        if genll:
            cmd.append("-gen-llfiles")
        if self.vec["tag"]:
            cmd += ["-tags", "vtag"]
        cmd += ["-abi", str(self.vec["abi"])]
        e["VERIF_X"] = "vt/b.xVar=x%d" % self.vec["x"]       # the -X string override (tc/src/xrewrite.go hands it to build.Config.GlobalRewrites)
        if self.vec["trace"]:
            e["LLGO_TRACE"] = "1"
        else:
            e.pop("LLGO_TRACE", None)
        cmd.append(".")
        try:
            r = subprocess.run(cmd, cwd=self.src, env=e, capture_output=True, text=True, timeout=3600)
        except subprocess.TimeoutExpired:
            raise Undecided("llgo build did not finish within an hour (overloaded machine?)")
        if r.returncode != 0:
            return None, r.stderr[-1500:], 0, 0
        hits = r.stderr.count("CACHE HIT")
        miss = r.stderr.count("CACHE MISS")
        rc, out, err = run_exe(exe, timeout=30)
        if rc == 0:
            # LLGO_TRACE=1 compiles a "call <function>" line (stdout) into every function entry: a package served stale from the cache lacks (or keeps) them
            for fn in ("vt/a.Report", "vt/b.Report"):
                err += "trace %s %d\n" % (fn, 1 if ("call " + fn + "\n") in out else 0)
        return err if rc == 0 else None, "rc=%s %s" % (rc, err[-300:]), hits, miss


def run_history(args):
    hist, base, idx, template = args
    root = os.path.join(base, "h%04d" % idx)
    if os.path.exists(root):
        shutil.rmtree(root)
    w = World(root, template)
    res = {"history": hist, "steps": [], "violation": None, "hits": 0, "miss": 0, "undecided": None}
    try:
        return run_history_(w, hist, res, root)
    except Undecided as e:
        res["undecided"] = str(e)
        shutil.rmtree(root, ignore_errors=True)
        return res


def run_history_(w, hist, res, root):
    out, err, h, m = w.build_run()
    if out != expected(w.vec):
        res["violation"] = ("initial", "initial build prints %r want %r (%s)" % (out, expected(w.vec), err))
        return res
    for i, ev in enumerate(hist):
        w.apply(ev)
        out, err, h, m = w.build_run()
        res["hits"] += h; res["miss"] += m
        res["steps"].append((ev, dict(w.vec)))
        if out != expected(w.vec):
            got_lines = set((out or "").split("\n"))
            stale = [] if out is None else sorted(set(ln.split(" ")[0] if not ln.startswith("trace") else "trace" for ln in expected(w.vec).split("\n") if ln and ln not in got_lines))
            res["violation"] = ("stale:" + "+".join(stale) if stale else "/".join(hist[:i + 1]), "after %s the cached build prints %r, the inputs dictate %r %s" % (
                " -> ".join(hist[:i + 1]), out, expected(w.vec), "" if out is not None else err))
            break
    shutil.rmtree(root, ignore_errors=True)
    return res


def repro_check(base, vec_events):
    """two fresh builds (private llgo cache and go cache each) of the same sources: identical IR per package"""
    def one(k):
        root = os.path.join(base, "repro%s_%d" % ("-".join(vec_events) or "init", k))
        if os.path.exists(root):
            shutil.rmtree(root)
        w = World(root)
        for ev in vec_events:
            w.apply(ev)
        gc = os.path.join(root, "gocache")
        shutil.copytree(os.path.join(BUILD, "gocache"), gc, symlinks=True, ignore=shutil.ignore_patterns("*.ll")) if False else os.makedirs(gc)
        out, err, h, m = w.build_run(genll=True, gocache=gc)
        lls = {}
        for dp, dn, fn in os.walk(gc):
            for f in fn:
                if f.endswith(".ll"):
                    txt = open(os.path.join(dp, f), "rb").read()
                    # key a module by its source_filename / first definition so the comparison is per package
                    # module identity = its content without the source_filename line (temporary file names differ between builds)
                    body = b"\n".join(ln for ln in txt.split(b"\n") if not ln.startswith(b"source_filename") and not ln.startswith(b"; ModuleID"))
                    lls.setdefault("modules", []).append(hashlib.sha256(body).hexdigest()[:16])
        shutil.rmtree(root, ignore_errors=True)
        return (out, {k: sorted(v) for k, v in lls.items()})
    return pmap(one, [0, 1], workers=2)


PY_SYMS = ["Sqrt", "Pow", "Sin", "Cos", "Tan", "Exp", "Log", "Floor", "Ceil", "Fabs", "Atan", "Sinh"]


def py_repro_check(base):
    """two fresh builds of a package that uses a dozen symbols of one Python module: identical IR (symbol loading must not follow map iteration order)"""
    body = "".join("\ts += pymath.%s(x).Float64()\n" % f if f != "Pow" else "\ts += pymath.Pow(x, x).Float64()\n" for f in PY_SYMS)
    files_ = {"go.mod": "module vt\n\ngo 1.24\n\nrequire github.com/goplus/lib v0.3.1\n", "go.sum": open("/verif/checks/c19/go.sum").read(),
              "main.go": 'package main\n\nimport "vt/p"\n\nfunc main() { println(int(p.Sum() * 1000)) }\n',
              "p/p.go": 'package p\n\nimport (\n\t"github.com/goplus/lib/py"\n\tpymath "github.com/goplus/lib/py/math"\n)\n\nfunc Sum() float64 {\n\tx := py.Float(0.5)\n\ts := 0.0\n' + body + '\treturn s\n}\n'}
    def one(k):
        root = os.path.join(base, "pyrepro%d" % k)
        shutil.rmtree(root, ignore_errors=True)
        src = os.path.join(root, "src"); gc = os.path.join(root, "gocache"); xdg = os.path.join(root, "xdg")
        for d_ in (src, gc, xdg):
            os.makedirs(d_)
        write_module(src, files_)
        e = llgo_env("A"); e["XDG_CACHE_HOME"] = xdg; e["GOCACHE"] = gc; e["LLGO_LIB_PYTHON"] = "/usr/lib/x86_64-linux-gnu/python3.11"
        r = subprocess.run([llgo_path(), "build", "-O0", "-gen-llfiles", "-o", os.path.join(root, "prog"), "."], cwd=src, env=e, capture_output=True, text=True, timeout=3600)
        if r.returncode != 0:
            return "ERR " + r.stderr[-1500:]
        mods = []
        for dp, dn, fn in os.walk(gc):
            for f in fn:
                if f.endswith(".ll"):
                    txt = open(os.path.join(dp, f), "rb").read()
                    if b"__llgo_py.math" in txt:
                        body_ = b"\n".join(ln for ln in txt.split(b"\n") if not ln.startswith(b"source_filename") and not ln.startswith(b"; ModuleID"))
                        mods.append(hashlib.sha256(body_).hexdigest()[:16])
        shutil.rmtree(root, ignore_errors=True)
        return sorted(mods)
    sets = pmap(one, [0, 1, 2], workers=3)
    for x in sets:
        if isinstance(x, str):
            return None, x
    return sets, ""


if __name__ == "__main__":
    ap = argparse.ArgumentParser()
    ap.add_argument("--id", default="C13"); ap.add_argument("--tier", default=os.environ.get("VERIF_TIER", "quick")); ap.add_argument("--replay")
    a = ap.parse_args()
    thorough = a.tier == "thorough"
    rep = Report("C13", a.tier, "model_checking")
    base = workdir("C13")
    evs = THOROUGH_EVENTS if thorough else EVENTS
    depth = 2
    if thorough:
        hists = [list(h) for d in range(1, depth + 1) for h in itertools.product(evs, repeat=d)]
    else:
        # quick: every event from the initial state, every edit after a cache clear and before a no-op rebuild, and every ordered pair of the package edits
        edits = [e for e in evs if (e.startswith("edit-") and e not in ("edit-b-samesize", "edit-b-keep-mtime")) or e in ("toggle-tag", "set-x")]
        hists = [[e] for e in evs] + [["clear-cache", e] for e in edits] + [["edit-b", "edit-a"], ["edit-a", "edit-b"], ["edit-decl", "edit-decl"], ["edit-decl", "noop"], ["toggle-tag", "edit-b"], ["edit-b", "toggle-tag"], ["edit-b", "noop"], ["toggle-tag", "toggle-tag"],
                                                                                        ["set-x", "set-x"], ["set-x", "noop"], ["set-x", "edit-b"], ["toggle-abi", "toggle-abi"], ["toggle-abi", "edit-b"], ["toggle-trace", "toggle-trace"], ["toggle-trace", "edit-b"],
                                                                                        ["edit-ext", "edit-ext"], ["edit-ext", "noop"], ["edit-ext", "edit-b"], ["edit-cgo-header", "edit-cgo-c"], ["edit-cgo-c", "edit-cgo-header"], ["edit-cgo-header", "noop"]]
    if thorough:
        hists += [list(h) for h in itertools.product(["edit-b", "edit-embed", "edit-cfile", "toggle-tag", "clear-cache", "noop"], repeat=3)]
    if a.replay:
        hists = [json.load(open(a.replay))["replay"]["history"]]
    llgo_path()
    # warm the shared package cache once (runtime, std) so that histories start from a realistic non-empty cache: each world has its own XDG dir,
    # therefore the first build of a world compiles the runtime; to bound the cost the worlds run in parallel
    troot = os.path.join(base, "template")
    if os.path.exists(troot):
        shutil.rmtree(troot)
    tw = World(troot)
    out, err, _, _ = tw.build_run()
    if out != expected(tw.vec):
        rep.violation("harness:template", "the template world does not build/run: %r %s" % (out, err))
        rep.coverage.update(states=1, transitions=1, traces_validated_against_impl=0, samples=["-"], exhaustive=False)
        rep.finish()
    import threading
    repro_evs = ([], ["edit-b", "toggle-tag"]) if not thorough else ([], ["edit-b", "toggle-tag"], ["edit-cfile", "edit-embed"])
    side = {}

    def side_work():   # clean builds for the reproducibility part run beside the histories
        try:
            side["repro"] = [repro_check(base, e) for e in repro_evs]
            side["py"] = py_repro_check(base)
        except (Undecided, subprocess.TimeoutExpired) as e:
            side["undecided"] = str(e)
    th = threading.Thread(target=side_work)
    th.start()
    results = pmap(run_history, [(h, base, i, tw.xdg) for i, h in enumerate(hists)], workers=8)
    th.join()
    states = set()
    transitions = hits = miss = 0
    undecided = [r["undecided"] for r in results if r["undecided"]] + ([side["undecided"]] if "undecided" in side else [])
    for r in results:
        for ev, vec in r["steps"]:
            states.add(json.dumps(vec, sort_keys=True)); transitions += 1
        hits += r["hits"]; miss += r["miss"]
        if r["violation"]:
            key, what = r["violation"]
            rep.violation("history:" + key, what, {"history": r["history"]})
    # reproducibility of emitted IR
    nrep = 0
    for evs_, s in zip(repro_evs, side.get("repro", [])):
        nrep += 1
        if s[0][1] != s[1][1] or not s[0][1]:
            a0, a1 = s[0][1].get("modules", []), s[1][1].get("modules", [])
            rep.violation("repro:" + "/".join(evs_), "two clean builds of the same sources emitted different IR: %d modules vs %d, %d module texts not shared" % (
                len(a0), len(a1), len(set(a0) ^ set(a1))), {"history": evs_})
    sets, err = side.get("py", ([], "undecided"))
    if "py" not in side:
        pass
    elif sets is None:
        rep.violation("harness:pyrepro", "the Python-using package does not build:\n" + err)
    else:
        nrep += 1
        if not sets[0] or any(x != sets[0] for x in sets[1:]):
            rep.violation("repro:python-symbols", "three clean builds of a package that loads %d symbols of one Python module emitted different IR for it: %s" % (len(PY_SYMS), sets), {"history": ["pyrepro"]})
    rep.coverage.update(states=len(states), transitions=transitions, traces_validated_against_impl=len(results), evaluations=transitions, distinct_nontrivial=len(states),
        exhaustive=not undecided, undecided_steps=undecided[:5], histories=len(hists), cache_hits_seen=hits, cache_misses_seen=miss, reproducibility_pairs=nrep,
        samples=[hists[len(hists) // 2], hists[-1]],
        rule="world = module main -> a -> b -> d (b embeds a data file and has a build-tag-gated file pair, a has an LLGoFiles C file with a header, d is a declaration-only package whose constant and type layout are compiled into b); events = %s; "
             "every history of length <=%d%s is replayed on a fresh world with its own cache directory; state = version vector of the inputs (8 files/tags, the -X override of a string in b, the ABI mode with a by-value struct crossing main -> a -> b, LLGO_TRACE, a cgo package's header and C file, a package of another module replaced by a local directory); after every step the program "
             "built with the cache must print exactly the versions of its inputs (which is what a clean build prints); mtimes are set explicitly and strictly increasing" % (
                 evs, depth, " plus all length-3 histories over 6 events" if thorough else ""))
    rep.assumptions += ["-X string overrides have no command-line spelling in this llgo; they are passed through build.Config.GlobalRewrites by an overlay file in cmd/llgo (tc/src/xrewrite.go) that otherwise runs what `llgo build` runs",
                        "of the behaviour-affecting environment variables only LLGO_TRACE is toggled (its effect is observable in program output); the optimisation level is fixed at -O0 (LLVM 14)",
                        "main packages are never cached by design; staleness can only show through packages a and b"]
    rep.finish()
