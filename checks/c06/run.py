#!/usr/bin/env python3
"""C06: maps under every short operation history from start states straddling each growth boundary, 7 key/value shapes, 3 hash seeds."""
import os, sys
sys.path.insert(0, "/verif/lib"); sys.path.insert(0, os.path.dirname(os.path.abspath(__file__)))
import diffcheck, gen
tier = "thorough" if "thorough" in sys.argv else os.environ.get("VERIF_TIER", "quick")
diffcheck.main("C06", "model_checking", gen.programs,
    rule="for each of 7 key/value shapes (int/int64, string/[3]int64, float64 incl. +0/-0/NaN/Inf, interface keys of mixed dynamic types, [2]int/struct{}, struct key/200-byte "
         "value (indirect elem), 136-byte key (indirect key)): start states of population {0,1,7,8,9,12,13,14,26,27,52,53,54,104,105,208,209,1000} (each side of every load-factor "
         "boundary) built three ways (ascending inserts; insert 2n/delete/re-insert -> tombstones; make with hint), then every sequence of <=3 (n<=14), <=2 (n<=209) operations from a "
         "28-operation alphabet (11 sets, 11 deletes over probe keys incl. fresh keys, clear, 5 range-with-mutation loops: grow while iterating, delete visited, delete unvisited, "
         "update, clear+insert); after each sequence an order-independent digest (len, iteration count, value sum, lookups) is compared with go1.24.0 and the iteration "
         "specification (each entry present throughout exactly once, none deleted-before-reached, none twice) is checked in the program. Each llgo binary runs under 3 hash seeds. "
         "case = one (start, first op) subtree; states = sequences executed",
    samples=["int_w8/n=13,how=1/range-mut0 ok len=53 iter=53 sum=... get:f,f,f,f,t10,t11,t16,t22,f,f,f, subtree=..."],
    assumptions=["hash seed / iteration start come from libc rand(), interposed by an LD_PRELOAD seam (seeds 1,2,3)", "iteration order is never compared"],
    seeds=(1, 2, 3) if tier == "thorough" else (1, 2),
    post=lambda rep, results, a: rep.coverage.update(states=rep.coverage["evaluations"], transitions=rep.coverage["evaluations"] * 28, traces_validated_against_impl=rep.coverage["evaluations"]))
