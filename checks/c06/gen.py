"""C06 generator: maps as finite maps under every short operation history from start states straddling every growth boundary,
for several key/value type shapes; iteration checked against the set-based specification inside the program."""
import sys
sys.path.insert(0, "/verif/lib")
from prelude import PRELUDE

# name -> (key type, key(i) expr, value type, val(id) expr, id(v) expr, extra decls)
SHAPES = {
    "int_w8": ("int", "i*7 - 3", "int64", "int64(id)", "int(v)", ""),
    "str_s24": ("string", "\"k\" + itoa(int64(i))", "[3]int64", "[3]int64{int64(id), 1, 2}", "int(v[0])", ""),
    "f64_w8": ("float64", "fkey(i)", "int64", "int64(id)", "int(v)",
               "var fz float64\nfunc fkey(i int) float64 {\n\tswitch i {\n\tcase 0:\n\t\treturn fz // +0\n\tcase 1:\n\t\treturn -fz // -0: same key as +0\n\tcase 2:\n\t\treturn fz / fz // NaN: never equal, always a new entry\n\tcase 3:\n\t\treturn 1 / fz\n\t}\n\treturn float64(i) + 0.5\n}"),
    "any_w8": ("any", "akey(i)", "int64", "int64(id)", "int(v)",
               "type pt struct {\n\tx int\n\ts string\n}\nfunc akey(i int) any {\n\tswitch i % 6 {\n\tcase 0:\n\t\treturn i\n\tcase 1:\n\t\treturn \"s\" + itoa(int64(i))\n\tcase 2:\n\t\treturn float64(i) + 0.25\n\tcase 3:\n\t\treturn [2]int{i, -i}\n\tcase 4:\n\t\treturn pt{i, \"p\"}\n\t}\n\treturn int16(i) // same numeric value as an int key could have, different dynamic type\n}"),
    "arr_z0": ("[2]int", "[2]int{i, i * 5}", "struct{}", "struct{}{}", "-1", ""),
    "st_big": ("kst", "kst{i, \"n\" + itoa(int64(i))}", "[25]int64", "bigv(id)", "int(v[24])",
               "type kst struct {\n\ta int\n\tb string\n}\nfunc bigv(id int) (r [25]int64) {\n\tr[0] = 1\n\tr[24] = int64(id)\n\treturn\n}"),
    "bigk_w8": ("[17]int64", "bigk(i)", "int64", "int64(id)", "int(v)", "func bigk(i int) (r [17]int64) {\n\tr[0] = int64(i)\n\tr[16] = int64(-i)\n\treturn\n}"),
}

TMPL = r'''
var cases []func()

type K = %(kt)s
type V = %(vt)s

const hasID = %(hasid)s

%(extra)s

func key(i int) K { return %(key)s }
func val(id int) V { return %(val)s }
func idOf(v V) int { return %(idof)s }

func isNaNKey(i int) bool { k := key(i); return k != k }

var fail string

func failf(s string) {
	if fail == "" {
		fail = s
	}
}

// build a start state of population n in one of three ways
func build(n, how int) map[K]V {
	var m map[K]V
	switch how {
	case 0: // ascending inserts
		m = map[K]V{}
		for i := 10; i < 10+n; i++ {
			m[key(i)] = val(i)
		}
	case 1: // insert 2n, delete every other key (tombstones; same-size growth later)
		m = map[K]V{}
		for i := 10; i < 10+2*n; i++ {
			m[key(i)] = val(i)
		}
		for i := 10 + n; i < 10+2*n; i++ {
			delete(m, key(i))
		}
		for i := 10; i < 10+n; i += 2 {
			delete(m, key(i))
			m[key(i)] = val(i)
		}
	case 2: // make with a size hint
		m = make(map[K]V, n)
		for i := 10 + n - 1; i >= 10; i-- {
			m[key(i)] = val(i)
		}
	}
	return m
}

// digest: order-independent summary of the whole map + lookups of the probe keys
func digest(m map[K]V, n int) string {
	cnt, sum := 0, 0
	for k, v := range m {
		cnt++
		id := idOf(v)
		if hasID && id >= 0 && id < 100000 && !(key(id) == k) {
			failf("range yielded a value that does not belong to its key (id " + itoa(int64(id)) + ")")
		}
		sum = (sum + (id+7)*(id+13)) & 0xffffff
	}
	s := "len=" + itoa(int64(len(m))) + " iter=" + itoa(int64(cnt)) + " sum=" + itoa(int64(sum)) + " get:"
	for _, i := range probes(n) {
		v, ok := m[key(i)]
		s += btoa(ok)
		if ok {
			s += itoa(int64(idOf(v)))
		} else if idOf(v) > 0 {
			s += "NONZERO"
		}
		s += ","
	}
	return s
}

func probes(n int) []int {
	return []int{0, 1, 2, 3, 10, 11, 10 + n/2, 10 + n - 1, 10 + n, 5000, 5001}
}

const nOps = 28

func opName(op int) string {
	switch {
	case op < 11:
		return "set#" + itoa(int64(op))
	case op < 22:
		return "del#" + itoa(int64(op-11))
	case op == 22:
		return "clear"
	}
	return "range-mut" + itoa(int64(op-23))
}

var nextID = 100000

// apply one operation; range-with-mutation macros check the iteration specification themselves
func apply(m map[K]V, op, n int) {
	pr := probes(n)
	switch {
	case op < 11:
		nextID++
		if isNaNKey(pr[op]) {
			m[key(pr[op])] = val(nextID)
		} else {
			m[key(pr[op])] = val(pr[op])
		}
	case op < 22:
		delete(m, key(pr[op-11]))
	case op == 22:
		clear(m)
	default:
		rangeMut(m, op-23, n)
	}
}

// rangeMut: a full range loop that mutates the map at its 2nd step.
//  0: insert 40 fresh keys (forces growth while iterating)   1: delete the entry just visited
//  2: delete an entry not yet visited                          3: update the current entry and one unvisited entry
//  4: clear the map and insert one key
func rangeMut(m map[K]V, kind, n int) {
	if !hasID {
		cnt := 0
		for range m {
			cnt++
			if cnt == 2 && kind == 0 {
				for i := 7000; i < 7040; i++ {
					m[key(i)] = val(i)
				}
			}
		}
		return
	}
	// ids present at loop start (bookkeeping with slices only; NaN entries have ids >= 100000)
	var present []int
	for _, v := range m {
		present = append(present, idOf(v))
	}
	has := func(s []int, x int) bool {
		for _, y := range s {
			if y == x {
				return true
			}
		}
		return false
	}
	var yielded, deleted, inserted []int
	// fixed targets: the two smallest ordinary ids present
	t0, t1 := -1, -1
	for _, p := range present {
		if p >= 100000 {
			continue
		}
		if t0 < 0 || p < t0 {
			t0, t1 = p, t0
		} else if t1 < 0 || p < t1 {
			t1 = p
		}
	}
	step := 0
	cleared := false
	for k, v := range m {
		id := idOf(v)
		step++
		if has(yielded, id) {
			failf("range yielded entry " + itoa(int64(id)) + " twice")
		}
		if has(deleted, id) {
			failf("range yielded entry " + itoa(int64(id)) + " after it was deleted")
		}
		if !has(present, id) && !has(inserted, id) {
			failf("range yielded entry " + itoa(int64(id)) + " that was never in the map")
		}
		if cleared && !has(inserted, id) {
			failf("range yielded entry " + itoa(int64(id)) + " after clear")
		}
		yielded = append(yielded, id)
		// mutations are chosen so that the FINAL map does not depend on the iteration order (the reference run must be reproducible)
		switch kind {
		case 0:
			if step == 2 {
				for i := 7000; i < 7040; i++ {
					m[key(i)] = val(i)
					inserted = append(inserted, i)
				}
			}
		case 1: // delete the entry just visited, when it is the fixed target t0
			if id == t0 {
				delete(m, k)
			}
		case 2: // at the first step delete whichever of t0/t1 has not been reached; the other one is deleted after the loop
			if step == 1 && t1 >= 0 {
				victim := t1
				if id == t1 {
					victim = t0
				}
				delete(m, key(victim))
				deleted = append(deleted, victim)
			}
		case 3: // re-assign the current entry and the fixed entry t1 (reached or not)
			if step == 2 {
				if id < 100000 {
					m[k] = val(id)
				}
				if t1 >= 0 {
					m[key(t1)] = val(t1)
				}
			}
		case 4:
			if step == 2 {
				clear(m)
				cleared = true
				for _, p := range present {
					if p != 8000 {
						deleted = append(deleted, p)
					}
				}
				m[key(8000)] = val(8000)
				inserted = append(inserted, 8000)
				// an entry 8000 that existed before the clear is gone; the one just created is a new entry and may (or may not) be produced
				for i, y := range yielded {
					if y == 8000 {
						yielded[i] = -8000
					}
				}
				for i, y := range present {
					if y == 8000 {
						present[i] = -8000
					}
				}
			}
		}
	}
	if kind == 2 && t1 >= 0 {
		delete(m, key(t0))
		delete(m, key(t1))
	}
	// every entry present for the whole loop must have been yielded exactly once
	for _, p := range present {
		if p != -8000 && !has(deleted, p) && !has(yielded, p) {
			failf("range skipped entry " + itoa(int64(p)) + " that was present for the whole loop")
		}
	}
}

type startT struct{ n, how, depth int }

func main() {
	starts := []startT{%(starts)s}
	// nil map behaviour
	cases = append(cases, func() {
		var m map[K]V
		v, ok := m[key(1)]
		s := "nil: len=" + itoa(int64(len(m))) + " get=" + btoa(ok) + itoa(int64(idOf(v)))
		delete(m, key(1))
		n := 0
		for range m {
			n++
		}
		clear(m)
		s += " iter=" + itoa(int64(n)) + " write="
		func() {
			defer func() {
				if recover() != nil {
					s += "P"
				}
			}()
			m[key(1)] = val(1)
			s += "N"
		}()
		emit("%(name)s/nilmap", s)
	})
	for _, sp := range starts {
		sp := sp
		for op0 := 0; op0 < nOps; op0++ {
			op0 := op0
			cases = append(cases, func() {
				fail = ""
				out := make([]byte, 0, 8192)
				var seq [4]int
				var rec func(d int)
				rec = func(d int) {
					if fail != "" {
						return
					}
					m := build(sp.n, sp.how)
					nextID = 100000
					for i := 0; i < d; i++ {
						apply(m, seq[i], sp.n)
					}
					dg := digest(m, sp.n)
					h := 0
					for _, ch := range dg {
						h = (h*131 + int(ch)) & 0xffffffff
					}
					out = append(out, itoa(int64(h))...)
					out = append(out, ' ')
					if fail != "" {
						for i := 0; i < d; i++ {
							fail += " [" + opName(seq[i]) + "]"
						}
						return
					}
					if d == sp.depth {
						return
					}
					for op := 0; op < nOps; op++ {
						seq[d] = op
						rec(d + 1)
					}
				}
				seq[0] = op0
				rec(1)
				res := "ok "
				if fail != "" {
					res = "FAIL " + fail + " "
				}
				// a compact fingerprint of all digests of the subtree (full digests would be huge); first digest in clear
				first := digest(func() map[K]V { m := build(sp.n, sp.how); nextID = 100000; apply(m, op0, sp.n); return m }(), sp.n)
				hh := 0
				for _, ch := range out {
					hh = (hh*131 + int(ch)) & 0xffffffff
				}
				emit("%(name)s/n="+itoa(int64(sp.n))+",how="+itoa(int64(sp.how))+"/"+opName(op0), res+first+" subtree="+itoa(int64(hh)))
			})
		}
	}
	runAll(cases)
}
'''


def prog(name, tier):
    kt, key, vt, val, idof, extra = SHAPES[name]
    pops = [0, 1, 7, 8, 9, 12, 13, 14, 26, 27, 52, 53, 54, 104, 105, 208, 209, 1000]
    starts = []
    for n in pops:
        for how in (0, 1, 2):
            if tier == "thorough":
                d = 4 if n <= 9 else 3 if n <= 105 else 2
            else:
                d = 3 if n <= 14 else 2 if n <= 209 else 1
                if n > 14 and how == 2:
                    d = 1
            starts.append("{%d, %d, %d}" % (n, how, d))
    return PRELUDE + TMPL % dict(kt=kt, vt=vt, key=key, val=val, idof=idof, extra=extra, name=name, starts=", ".join(starts), hasid="false" if idof == "-1" else "true")


def programs(tier):
    return {"map_" + n: prog(n, tier) for n in SHAPES}


if __name__ == "__main__":
    import os
    for k, v in programs(sys.argv[2] if len(sys.argv) > 2 else "quick").items():
        d = os.path.join(sys.argv[1], k)
        os.makedirs(d, exist_ok=True)
        open(os.path.join(d, "main.go"), "w").write(v)
        open(os.path.join(d, "go.mod"), "w").write("module vt\n\ngo 1.24\n")
        print(k, len(v))
