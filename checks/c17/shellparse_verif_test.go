package shellparse

// Injected by /verif (C17). Exhaustive enumeration over a small alphabet; results as JSON in $VERIF_OUT.

import (
	"encoding/json"
	"errors"
	"fmt"
	"os"
	"reflect"
	"strconv"
	"strings"
	"testing"
	"unicode"
)

type vres struct {
	Name        string            `json:"name"`
	Evaluations int               `json:"evaluations"`
	Nontrivial  int               `json:"distinct_nontrivial"`
	Violations  []map[string]any  `json:"violations"`
	Samples     []any             `json:"samples"`
	Exhaustive  bool              `json:"exhaustive"`
	Extra       map[string]any    `json:"extra"`
}

func (r *vres) viol(key, what string, replay any) {
	if len(r.Violations) < 40 {
		r.Violations = append(r.Violations, map[string]any{"key": key, "what": what, "replay": replay})
	}
}

func vwrite(rs ...*vres) {
	p := os.Getenv("VERIF_OUT")
	if p == "" {
		return
	}
	b, _ := json.Marshal(rs)
	os.WriteFile(p, b, 0o644)
}

func venvInt(name string, def int) int {
	if v, err := strconv.Atoi(os.Getenv(name)); err == nil {
		return v
	}
	return def
}

var sigma = []string{"a", " ", "\t", "\"", "'", "\\", "-", "$", "é"}

func allStrings(alpha []string, maxLen int) []string {
	res := []string{""}
	prev := []string{""}
	for l := 1; l <= maxLen; l++ {
		var cur []string
		for _, p := range prev {
			for _, c := range alpha {
				cur = append(cur, p+c)
			}
		}
		res = append(res, cur...)
		prev = cur
	}
	return res
}

// the documented quoting: double quotes with \" and \\ ; single quotes (no escapes) when the arg has no ';
// bare when the arg is non-empty and has no white space or quote characters.
func quoteForms(a string) []string {
	fs := []string{`"` + strings.ReplaceAll(strings.ReplaceAll(a, `\`, `\\`), `"`, `\"`) + `"`}
	if !strings.Contains(a, "'") {
		fs = append(fs, "'"+a+"'")
	}
	if a != "" && !strings.ContainsAny(a, " \t\"'") {
		fs = append(fs, a)
	}
	return fs
}

// refSplit: independent reference for the documented grammar.
func refSplit(s string) ([]string, error) {
	var out []string
	rs := []rune(s)
	i := 0
	for {
		for i < len(rs) && unicode.IsSpace(rs[i]) {
			i++
		}
		if i >= len(rs) {
			return out, nil
		}
		var w []rune
		for i < len(rs) && !unicode.IsSpace(rs[i]) {
			switch rs[i] {
			case '"':
				i++
				closed := false
				for i < len(rs) {
					if rs[i] == '\\' && i+1 < len(rs) && (rs[i+1] == '"' || rs[i+1] == '\\') {
						w = append(w, rs[i+1])
						i += 2
						continue
					}
					if rs[i] == '"' {
						closed = true
						i++
						break
					}
					w = append(w, rs[i])
					i++
				}
				if !closed {
					return nil, errors.New("unterminated")
				}
			case '\'':
				i++
				closed := false
				for i < len(rs) {
					if rs[i] == '\'' {
						closed = true
						i++
						break
					}
					w = append(w, rs[i])
					i++
				}
				if !closed {
					return nil, errors.New("unterminated")
				}
			default:
				w = append(w, rs[i])
				i++
			}
		}
		out = append(out, string(w))
	}
}

func safeParse(s string) (res []string, err error, panicked any) {
	defer func() {
		if r := recover(); r != nil {
			panicked = r
		}
	}()
	res, err = Parse(s)
	return
}

func TestVerifShellparse(t *testing.T) {
	argLen := venvInt("VERIF_ARGLEN", 3)
	rawLen := venvInt("VERIF_RAWLEN", 5)
	rt := &vres{Name: "shellparse.roundtrip", Exhaustive: true, Extra: map[string]any{"arg_len": argLen}}
	args := allStrings(sigma, argLen)
	distinct := map[string]bool{}
	check := func(list []string, line string) {
		rt.Evaluations++
		got, err, p := safeParse(line)
		if p != nil || err != nil || !reflect.DeepEqual(got, list) {
			rt.viol(fmt.Sprintf("roundtrip:%q", list), fmt.Sprintf("args %q quoted as %q parsed to %q err=%v panic=%v", list, line, got, err, p), map[string]any{"args": list, "line": line})
		}
	}
	for _, a := range args {
		for _, q := range quoteForms(a) {
			check([]string{a}, q)
			if strings.ContainsAny(a, " \t\"'\\") {
				distinct[q] = true
			}
		}
	}
	// pairs: every arg x every arg, each in its double-quoted form, plus mixed forms for the second
	for _, a := range args {
		qa := quoteForms(a)
		for _, b := range args {
			qb := quoteForms(b)
			check([]string{a, b}, qa[0]+" "+qb[0])
			if len(qa) > 1 || len(qb) > 1 {
				check([]string{a, b}, qa[len(qa)-1]+"\t"+qb[len(qb)-1])
			}
		}
	}
	rt.Nontrivial = len(distinct)
	rt.Samples = []any{quoteForms(`a "b'\`), quoteForms("é $")}

	raw := &vres{Name: "shellparse.raw_vs_reference", Exhaustive: true, Extra: map[string]any{"raw_len": rawLen}}
	outcomes := map[string]bool{}
	nerr := 0
	for _, s := range allStrings(sigma, rawLen) {
		raw.Evaluations++
		got, err, p := safeParse(s)
		want, werr := refSplit(s)
		if p != nil {
			raw.viol(fmt.Sprintf("raw-panic:%q", s), fmt.Sprintf("Parse(%q) panicked: %v", s, p), s)
			continue
		}
		if (err != nil) != (werr != nil) {
			raw.viol(fmt.Sprintf("raw-err:%q", s), fmt.Sprintf("Parse(%q) err=%v reference err=%v", s, err, werr), s)
			continue
		}
		if err != nil {
			nerr++
			continue
		}
		if len(got) == 0 && len(want) == 0 {
			continue
		}
		if !reflect.DeepEqual(got, want) {
			raw.viol(fmt.Sprintf("raw:%q", s), fmt.Sprintf("Parse(%q)=%q reference %q", s, got, want), s)
		}
		outcomes[strings.Join(got, "\x00")] = true
	}
	raw.Nontrivial = len(outcomes)
	raw.Extra["malformed_reported"] = nerr
	raw.Samples = []any{`a "b\"" 'c\'`}
	vwrite(rt, raw)
}
