package build

import (
	"encoding/json"
	"fmt"
	"go/token"
	"os"
	"strconv"
	"strings"
	"testing"
)

//VHELP

func vAllStrings(alpha []string, maxLen int) []string {
	res := []string{""}
	prev := []string{""}
	for l := 1; l <= maxLen; l++ {
		var cur []string
		for _, p := range prev {
			for _, c := range alpha {
				cur = append(cur, p+c)
			}
		}
		res = append(res, cur...)
		prev = cur
	}
	return res
}

func TestVerifXFlag(t *testing.T) {
	n := venvInt("VERIF_ARGLEN", 6)
	r := &vres{Name: "build.X_flag", Exhaustive: true, Extra: map[string]any{"len": n}}
	accepted := map[string]bool{}
	for _, s := range vAllStrings([]string{"a", ".", "=", "/", " ", "1"}, n) {
		r.Evaluations++
		// reference: importpath.name=value, split at the first '=' and the last '.' before it
		var wantPkg, wantName, wantVal string
		wantOK := false
		if eq := strings.Index(s, "="); eq >= 0 {
			if dot := strings.LastIndex(s[:eq], "."); dot >= 0 {
				wantPkg, wantName, wantVal = s[:dot], s[dot+1:eq], s[eq+1:]
				wantOK = wantPkg != "" && !strings.ContainsAny(wantPkg, " \t\r\n") && token.IsIdentifier(wantName)
			}
		}
		conf := &Config{}
		var panicked any
		func() {
			defer func() { panicked = recover() }()
			addGlobalStringWith(conf, s, []string{"example.com/mainpkg"}, false)
		}()
		if !wantOK {
			if panicked == nil {
				r.viol("xflag-accept:"+s, fmt.Sprintf("-X %q accepted (rewrites %v) but is malformed", s, conf.GlobalRewrites), s)
			}
			continue
		}
		if panicked != nil {
			r.viol("xflag-reject:"+s, fmt.Sprintf("-X %q rejected: %v", s, panicked), s)
			continue
		}
		pk := wantPkg
		if pk == "main" {
			pk = "example.com/mainpkg"
		}
		got, ok := conf.GlobalRewrites[pk][wantName]
		if !ok || got != wantVal || len(conf.GlobalRewrites) != 1 || len(conf.GlobalRewrites[pk]) != 1 {
			r.viol("xflag:"+s, fmt.Sprintf("-X %q gave %v want %s.%s=%q", s, conf.GlobalRewrites, pk, wantName, wantVal), s)
		}
		accepted[s] = true
	}
	// "main" maps to the main packages; first setting wins when skipIfExists
	conf := &Config{}
	addGlobalString(conf, "main.v=1", []string{"p/a", "p/b"})
	addGlobalString(conf, "main.v=2", []string{"p/a", "p/b"})
	addGlobalString(conf, "p/a.w=x=y.z", []string{"p/a", "p/b"})
	r.Evaluations++
	if conf.GlobalRewrites["p/a"]["v"] != "1" || conf.GlobalRewrites["p/b"]["v"] != "1" || conf.GlobalRewrites["p/a"]["w"] != "x=y.z" {
		r.viol("xflag-main", fmt.Sprintf("main.* rewrites: %v", conf.GlobalRewrites), nil)
	}
	r.Nontrivial = len(accepted)
	r.Samples = []any{"a/a.a=a. ", "a.a==", ".a=a"}
	vwrite(r)
}
