#!/usr/bin/env python3
"""C17: exhaustive small-alphabet enumeration of splitter/expander inputs inside the real packages
(tests injected with `go test -overlay`, /repo untouched)."""
import argparse, json, os, sys
sys.path.insert(0, "/verif/lib")
from common import *

HERE = os.path.dirname(os.path.abspath(__file__))
ap = argparse.ArgumentParser()
ap.add_argument("--id", default="C17"); ap.add_argument("--tier", default=os.environ.get("VERIF_TIER", "quick")); ap.add_argument("--replay")
a = ap.parse_args()
thorough = a.tier == "thorough"
rep = Report("C17", a.tier, "exploration")
work = workdir("C17")
helper = open(os.path.join(HERE, "vhelp.go.txt")).read()

def materialise(name):
    src = open(os.path.join(HERE, name)).read().replace("//VHELP", helper)
    p = os.path.join(work, name)
    open(p, "w").write(src)
    return p

jobs = [
    # (pkgdir, file, test name, tags, env)
    ("internal/shellparse", "shellparse_verif_test.go", "TestVerifShellparse", (), {"VERIF_ARGLEN": "3", "VERIF_RAWLEN": "7" if thorough else "5"}),
    ("xtool/safesplit", "safesplit_verif_test.go", "TestVerifSafesplit", (), {"VERIF_ARGLEN": "4" if thorough else "3"}),
    ("internal/buildtags", "buildtags_verif_test.go", "TestVerifBuildtags", (), {"VERIF_DEPTH": "2"}),
    ("xtool/env", "xenv_verif_test.go", "TestVerifXEnv", (), {"VERIF_PIECES": "4" if thorough else "3"}),
    ("internal/env", "ienv_verif_test.go", "TestVerifIEnv", (), {"VERIF_PIECES": "5" if thorough else "4"}),
    ("internal/clang", "clang_verif_test.go", "TestVerifClangFlags", (), {}),
    ("internal/build", "xflag_verif_test.go", "TestVerifXFlag", ("llvm14",), {"VERIF_ARGLEN": "7" if thorough else "6"}),
]

def runjob(j):
    pkgdir, fname, test, tags, env = j
    out = os.path.join(work, fname + ".json")
    if os.path.exists(out):
        os.remove(out)
    env = dict(env); env["VERIF_OUT"] = out
    extra = {}
    if "llvm14" in tags:
        extra[os.path.join(REPO, "ssa/zz_verif_opaque.go")] = "/verif/tc/src/opaque.go"
    r = go_test_overlay(pkgdir, {"zz_" + fname: materialise(fname)}, "^" + test + "$", tags=tags, env_extra=env, extra_overlay=extra)
    if r.returncode != 0 or not os.path.exists(out):
        return (j, None, r.stdout[-3000:] + r.stderr[-3000:])
    return (j, json.load(open(out)), "")

results = pmap(runjob, jobs, workers=len(jobs))
tot_eval = tot_nt = 0
subs = {}
samples = []
exhaustive = True
for j, res, err in results:
    if res is None:
        rep.violation("harness:" + j[2], "injected test did not complete (build failure or crash in the package under test):\n" + err)
        exhaustive = False
        continue
    for sub in res:
        tot_eval += sub["evaluations"]; tot_nt += sub["distinct_nontrivial"]
        subs[sub["name"]] = {"evaluations": sub["evaluations"], "distinct_nontrivial": sub["distinct_nontrivial"], "extra": sub.get("extra")}
        samples += [{"sub": sub["name"], "case": s} for s in (sub.get("samples") or [])[:2]]
        for v in sub.get("violations") or []:
            rep.violation(v["key"], v["what"], v.get("replay"))
rep.coverage.update(evaluations=tot_eval, distinct_nontrivial=tot_nt, exhaustive=exhaustive, sub_checks=subs, samples=samples,
    rule="every string/list/template over the stated alphabet up to the stated length is generated in canonical order and fed to the real "
         "package function; non-trivial = distinct inputs containing at least one metacharacter (space, quote, backslash, $, {, constraint operator) "
         "or, for -X, distinct accepted arguments")
rep.assumptions += ["reference splitters/expanders written from the documented grammar (DESIGN C17)",
                    "pkg-config replaced by a canned script first on PATH",
                    "safesplit domain excludes contents the pkg-config escaping cannot express (leading '-', trailing backslash)"]
rep.finish()
