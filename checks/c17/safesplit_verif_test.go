package safesplit

import (
	"encoding/json"
	"fmt"
	"os"
	"reflect"
	"strconv"
	"strings"
	"testing"
)

type vres struct {
	Name        string           `json:"name"`
	Evaluations int              `json:"evaluations"`
	Nontrivial  int              `json:"distinct_nontrivial"`
	Violations  []map[string]any `json:"violations"`
	Samples     []any            `json:"samples"`
	Exhaustive  bool             `json:"exhaustive"`
	Extra       map[string]any   `json:"extra"`
}

func (r *vres) viol(key, what string, replay any) {
	if len(r.Violations) < 60 {
		r.Violations = append(r.Violations, map[string]any{"key": key, "what": what, "replay": replay})
	}
}

func vwrite(rs ...*vres) {
	if p := os.Getenv("VERIF_OUT"); p != "" {
		b, _ := json.Marshal(rs)
		os.WriteFile(p, b, 0o644)
	}
}

func venvInt(name string, def int) int {
	if v, err := strconv.Atoi(os.Getenv(name)); err == nil {
		return v
	}
	return def
}

func allStrings(alpha []string, maxLen int) []string {
	res := []string{""}
	prev := []string{""}
	for l := 1; l <= maxLen; l++ {
		var cur []string
		for _, p := range prev {
			for _, c := range alpha {
				cur = append(cur, p+c)
			}
		}
		res = append(res, cur...)
		prev = cur
	}
	return res
}

// pkg-config style: white space inside a flag is escaped with a backslash.
func esc(s string) string {
	s = strings.ReplaceAll(s, " ", `\ `)
	return strings.ReplaceAll(s, "\t", "\\\t")
}

// classify contents the pkg-config escaping cannot express unambiguously (see DESIGN C17):
//   - a content that begins with '-' directly after the flag letter reads as the next flag
//   - a trailing backslash would escape the separator
func expressible(c string) bool {
	return !strings.HasPrefix(c, "-") && !strings.HasSuffix(c, `\`)
}

func TestVerifSafesplit(t *testing.T) {
	n := venvInt("VERIF_ARGLEN", 3)
	r := &vres{Name: "safesplit.roundtrip", Exhaustive: true, Extra: map[string]any{"content_len": n}}
	contents := []string{}
	skipped := 0
	for _, c := range allStrings([]string{"a", " ", "\t", `\`, "-", "é"}, n) {
		if expressible(c) {
			contents = append(contents, c)
		} else {
			skipped++
		}
	}
	r.Extra["contents"] = len(contents)
	r.Extra["inexpressible_skipped"] = skipped
	distinct := map[string]bool{}
	check := func(flags []string) {
		var parts []string
		for _, f := range flags {
			parts = append(parts, esc(f))
		}
		line := strings.Join(parts, " ")
		r.Evaluations++
		got := SplitPkgConfigFlags(line)
		if !reflect.DeepEqual(got, flags) {
			r.viol(fmt.Sprintf("split:%q", flags), fmt.Sprintf("flags %q written as %q split to %q", flags, line, got), map[string]any{"flags": flags, "line": line})
		}
		if strings.ContainsAny(line, " \t\\") {
			distinct[line] = true
		}
	}
	for _, c := range contents {
		check([]string{"-L" + c})
	}
	for _, c := range contents {
		for _, d := range contents {
			check([]string{"-L" + c, "-l" + d})
		}
	}
	// separators: several blanks / tabs between flags, leading and trailing blanks
	for _, c := range contents {
		for _, sep := range []string{"  ", "\t", " \t "} {
			r.Evaluations++
			line := " " + esc("-I"+c) + sep + "-lm" + " "
			want := []string{"-I" + c, "-lm"}
			if got := SplitPkgConfigFlags(line); !reflect.DeepEqual(got, want) {
				r.viol(fmt.Sprintf("split-sep:%q", line), fmt.Sprintf("%q split to %q want %q", line, got, want), line)
			}
		}
	}
	r.Nontrivial = len(distinct)
	r.Samples = []any{esc("-L/a b") + " -lm", esc("-L\\ a") + " " + esc("-lé\t")}
	vwrite(r)
}
