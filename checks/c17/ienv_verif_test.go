package env

import (
	"encoding/json"
	"fmt"
	"os"
	"strconv"
	"strings"
	"testing"
)

//VHELP

func TestVerifIEnv(t *testing.T) {
	n := venvInt("VERIF_PIECES", 4)
	r := &vres{Name: "internal_env.template", Exhaustive: true, Extra: map[string]any{"pieces": n}}
	envs := map[string]string{"port": "/dev/tty 0", "bin": "a.out", "": "ignored", "x": ""}
	type piece struct{ text, val, valNoDef string }
	pieces := []piece{{"lit ", "lit ", "lit "}, {"{port}", "/dev/tty 0", "/dev/tty 0"}, {"{bin}", "a.out", "a.out"}, {"{}", "DEF", ""},
		{"{x}", "", ""}, {"{nope}", "{nope}", "{nope}"}, {"}", "}", "}"}, {"$", "$", "$"}}
	distinct := map[string]bool{}
	var rec func(cur []piece)
	rec = func(cur []piece) {
		var tb, vb, nb strings.Builder
		for _, p := range cur {
			tb.WriteString(p.text)
			vb.WriteString(p.val)
			nb.WriteString(p.valNoDef)
		}
		tmpl := tb.String()
		r.Evaluations++
		if got := ExpandEnvWithDefault(tmpl, envs, "DEF"); got != vb.String() {
			r.viol("tmpl:"+tmpl, fmt.Sprintf("ExpandEnvWithDefault(%q, DEF)=%q want %q", tmpl, got, vb.String()), tmpl)
		}
		if got := ExpandEnvWithDefault(tmpl, envs); got != nb.String() {
			r.viol("tmpl0:"+tmpl, fmt.Sprintf("ExpandEnvWithDefault(%q)=%q want %q", tmpl, got, nb.String()), tmpl)
		}
		if strings.Contains(tmpl, "{") {
			distinct[tmpl] = true
		}
		if len(cur) == n {
			return
		}
		for _, p := range pieces {
			rec(append(cur, p))
		}
	}
	rec(nil)
	r.Nontrivial = len(distinct)
	r.Samples = []any{"lit {port}{}", "{bin}}{nope}"}
	vwrite(r)
}
