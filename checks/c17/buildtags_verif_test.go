package buildtags

import (
	"encoding/json"
	"fmt"
	"go/build/constraint"
	"os"
	"strconv"
	"strings"
	"testing"
)

//VHELP

func TestVerifBuildtags(t *testing.T) {
	depth := venvInt("VERIF_DEPTH", 2)
	r := &vres{Name: "buildtags.eval_vs_go", Exhaustive: true, Extra: map[string]any{"depth": depth}}
	tags := []string{"va", "vb", "llgo"}
	var terms []string
	for _, tg := range tags {
		terms = append(terms, tg, "!"+tg)
	}
	// AND groups of 1..depth terms, OR lists of 1..depth groups (legacy +build syntax is what CheckTags feeds to go/build)
	groups := [][]string{}
	var rec func(cur []string, k int)
	rec = func(cur []string, k int) {
		if len(cur) > 0 {
			groups = append(groups, append([]string{}, cur...))
		}
		if k == 0 {
			return
		}
		for _, tm := range terms {
			rec(append(cur, tm), k-1)
		}
	}
	rec(nil, depth)
	var ands []string
	for _, g := range groups {
		ands = append(ands, strings.Join(g, ","))
	}
	var exprs []string
	for _, a := range ands {
		exprs = append(exprs, a)
	}
	if depth >= 2 {
		for _, a := range ands {
			for _, b := range ands {
				exprs = append(exprs, a+" "+b)
			}
		}
	}
	r.Extra["expressions"] = len(exprs)
	spellings := func(set []string) [][]string {
		j := strings.Join(set, ",")
		res := [][]string{{"-tags", j}, {"-tags=" + j}, {"-v", "-tags", strings.Join(set, " "), "-x"}, {"-o", "-tags", "-tags=" + j}}
		return res
	}
	truthy := map[string]bool{}
	for mask := 0; mask < 8; mask++ {
		var set []string
		have := map[string]bool{}
		for i, tg := range tags {
			if mask&(1<<i) != 0 {
				set = append(set, tg)
				have[tg] = true
			}
		}
		for si, flags := range spellings(set) {
			if len(set) == 0 && si > 0 {
				continue
			}
			if len(set) == 0 {
				flags = nil
			}
			if si == 3 {
				// "-o -tags" consumes "-tags" as -o's neighbour in llgo's scan? the go tool would read "-tags" as the
				// value of -o. Both readings leave "-tags=<j>" as the effective tag flag only if the scan does not
				// mistake it for the value of a "-tags" flag; keep the unambiguous spelling instead.
				flags = []string{"-o", "x", "-tags=" + strings.Join(set, ",")}
			}
			m := map[string]bool{}
			for _, e := range exprs {
				m[e] = false
			}
			CheckTags(flags, m)
			for _, e := range exprs {
				r.Evaluations++
				x, err := constraint.Parse("// +build " + e)
				if err != nil {
					t.Fatalf("harness: %q: %v", e, err)
				}
				want := x.Eval(func(tag string) bool { return have[tag] })
				if m[e] != want {
					r.viol(fmt.Sprintf("tags:%v:%s", flags, e), fmt.Sprintf("flags %q: constraint %q evaluated %v, go/build/constraint says %v", flags, e, m[e], want), map[string]any{"flags": flags, "expr": e})
				}
				if want {
					truthy[fmt.Sprint(mask, e)] = true
				}
			}
		}
	}
	r.Nontrivial = len(truthy)
	r.Samples = []any{exprs[len(exprs)/2], exprs[len(exprs)-1]}
	vwrite(r)
}
