package clang

import (
	"encoding/json"
	"fmt"
	"os"
	"reflect"
	"strconv"
	"testing"
)

//VHELP

func TestVerifClangFlags(t *testing.T) {
	r := &vres{Name: "clang.flag_merge", Exhaustive: true, Extra: map[string]any{}}
	vals := []string{"", "-DA", `-I/x\ y -DB`}
	split := map[string][]string{"": nil, "-DA": {"-DA"}, `-I/x\ y -DB`: {"-I/x y", "-DB"}}
	cfgs := [][]string{nil, {"-c1"}, {"-c 1", "-c2"}}
	distinct := map[string]bool{}
	for _, eCC := range vals {
		for _, eC := range vals {
			for _, eLD := range vals {
				for _, cCC := range cfgs {
					for _, cC := range cfgs {
						for _, cLD := range cfgs {
							os.Setenv("CCFLAGS", eCC)
							os.Setenv("CFLAGS", eC)
							os.Setenv("LDFLAGS", eLD)
							cmd := NewCompiler(Config{CCFLAGS: cCC, CFLAGS: cC, LDFLAGS: cLD})
							var wantC, wantL []string
							wantC = append(wantC, split[eCC]...)
							wantC = append(wantC, split[eC]...)
							wantC = append(wantC, cCC...)
							wantC = append(wantC, cC...)
							wantL = append(wantL, split[eCC]...)
							wantL = append(wantL, split[eLD]...)
							wantL = append(wantL, cLD...)
							r.Evaluations += 2
							gotC := cmd.mergeCompilerFlags()
							gotL := cmd.mergeLinkerFlags()
							key := fmt.Sprintf("%q|%q|%q|%q|%q|%q", eCC, eC, eLD, cCC, cC, cLD)
							if len(gotC)+len(wantC) > 0 && !reflect.DeepEqual(gotC, wantC) {
								r.viol("cflags:"+key, fmt.Sprintf("compiler flags %q want %q (%s)", gotC, wantC, key), key)
							}
							if len(gotL)+len(wantL) > 0 && !reflect.DeepEqual(gotL, wantL) {
								r.viol("ldflags:"+key, fmt.Sprintf("linker flags %q want %q (%s)", gotL, wantL, key), key)
							}
							distinct[fmt.Sprint(wantC, wantL)] = true
						}
					}
				}
			}
		}
	}
	os.Unsetenv("CCFLAGS")
	os.Unsetenv("CFLAGS")
	os.Unsetenv("LDFLAGS")
	r.Nontrivial = len(distinct)
	r.Samples = []any{`CCFLAGS=-I/x\ y -DB CFLAGS=-DA cfg.CCFLAGS=[-c1]`}
	vwrite(r)
}
