package env

import (
	"encoding/json"
	"fmt"
	"os"
	"path/filepath"
	"reflect"
	"strconv"
	"strings"
	"testing"
)

//VHELP

type piece struct {
	text   string // template text
	val    string // what it must expand to
	cmd    bool
}

func TestVerifXEnv(t *testing.T) {
	n := venvInt("VERIF_PIECES", 3)
	dir := t.TempDir()
	// fake pkg-config: prints a canned answer depending on its last argument
	script := "#!/bin/sh\nfor a in \"$@\"; do last=$a; done\ncase \"$last\" in\n foo) printf -- '-L/opt/foo\\\\ bar/lib -lfoo\\n' ;;\n two) printf -- '-lx\\n-ly\\n' ;;\n none) exit 1 ;;\n *) printf -- '-l%s\\n' \"$last\" ;;\nesac\n"
	if err := os.WriteFile(filepath.Join(dir, "pkg-config"), []byte(script), 0o755); err != nil {
		t.Fatal(err)
	}
	t.Setenv("PATH", dir+":"+os.Getenv("PATH"))
	t.Setenv("VV", "val ue")
	t.Setenv("VW", "$VV(x)")
	t.Setenv("V_2", "é-${VV}")
	t.Setenv("VC", "$(pkg-config --libs q)") // a value that looks like a command: must be substituted verbatim, never run
	t.Setenv("VD", "-L/opt/$(uname -m)/lib")
	os.Unsetenv("VU")
	pieces := []piece{
		{"lit", "lit", false}, {"-la", "-la", false}, {" ", " ", false}, {"/", "/", false},
		{"$VV", "val ue", false}, {"${VV}", "val ue", false}, {"$VW", "$VV(x)", false}, {"${V_2}", "é-${VV}", false},
		{"$VU", "", false}, {"${VU}", "", false},
		{"${VC}", "$(pkg-config --libs q)", false}, {"$VD", "-L/opt/$(uname -m)/lib", false},
		{"$(pkg-config --libs foo)", `-L/opt/foo\ bar/lib -lfoo`, true},
		{"$(pkg-config --libs two)", "-lx -ly", true},
		{"$( pkg-config  --libs   zed )", "-lzed", true},
		{"$(pkg-config --libs none)", "", true},
	}
	r := &vres{Name: "xtool_env.expand", Exhaustive: true, Extra: map[string]any{"pieces": n, "alphabet": len(pieces)}}
	distinct := map[string]bool{}
	var rec func(cur []piece)
	rec = func(cur []piece) {
		if len(cur) > 0 {
			var tb, vb strings.Builder
			hasCmd := false
			ok := true
			for i, p := range cur {
				// "$VV" directly followed by an identifier character would name another variable: not a defined template
				if i > 0 && strings.HasPrefix(cur[i-1].text, "$") && !strings.HasSuffix(cur[i-1].text, "}") && !strings.HasSuffix(cur[i-1].text, ")") {
					if p.cmd && p.val == "" {
						ok = false // an empty command expansion glues "$VV" to whatever follows
					}
					if c := p.text[0]; c == '_' || c >= '0' && c <= '9' || c >= 'a' && c <= 'z' || c >= 'A' && c <= 'Z' {
						ok = false
					}
				}
				tb.WriteString(p.text)
				vb.WriteString(p.val)
				hasCmd = hasCmd || p.cmd
			}
			if ok {
				tmpl := tb.String()
				want := strings.TrimSpace(vb.String())
				r.Evaluations++
				got := ExpandEnv(tmpl)
				if got != want {
					r.viol("expand:"+tmpl, fmt.Sprintf("ExpandEnv(%q)=%q want %q", tmpl, got, want), tmpl)
				}
				if !hasCmd {
					gotArgs := ExpandEnvToArgs(tmpl)
					var wantArgs []string
					if want != "" {
						wantArgs = []string{want}
					}
					if !reflect.DeepEqual(gotArgs, wantArgs) {
						r.viol("expandargs:"+tmpl, fmt.Sprintf("ExpandEnvToArgs(%q)=%q want %q", tmpl, gotArgs, wantArgs), tmpl)
					}
				}
				if strings.Contains(tmpl, "$") {
					distinct[tmpl] = true
				}
			}
		}
		if len(cur) == n {
			return
		}
		for _, p := range pieces {
			rec(append(cur, p))
		}
	}
	rec(nil)
	// command expansion alone yields the flag list pkg-config printed
	for tmpl, want := range map[string][]string{
		"$(pkg-config --libs foo)": {"-L/opt/foo bar/lib", "-lfoo"},
		"$(pkg-config --libs two)": {"-lx", "-ly"},
		"$(pkg-config --libs none)": nil,
		"$(pkg-config --libs foo) $(pkg-config --libs q)": {"-L/opt/foo bar/lib", "-lfoo", "-lq"},
	} {
		r.Evaluations++
		if got := ExpandEnvToArgs(tmpl); !reflect.DeepEqual(got, want) {
			r.viol("expandargs:"+tmpl, fmt.Sprintf("ExpandEnvToArgs(%q)=%q want %q", tmpl, got, want), tmpl)
		}
	}
	r.Nontrivial = len(distinct)
	r.Samples = []any{"lit$VV${V_2}", "$(pkg-config --libs foo) $VU-la"}
	vwrite(r)
}
