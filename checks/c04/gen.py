"""C04 generator: functions built from defer sites (position kind x callee kind) and a terminator; the ordered trace of
deferred calls, recovered values, named results and the way the goroutine ends must match the reference toolchain."""
import itertools, sys
sys.path.insert(0, "/verif/lib")
from prelude import PRELUDE

COMMON = r'''
import "runtime"

var cases []func()
var tr []byte
var _ = runtime.Goexit

func logs(s string)          { tr = append(tr, s...); tr = append(tr, ' ') }
func logi(s string, v int)   { tr = append(tr, s...); tr = append(tr, '='); tr = append(tr, itoa(int64(v))...); tr = append(tr, ' ') }

func pval(v any) string {
	if s, ok := v.(string); ok && len(s) > 0 && (s[0] == 'P' || s[0] == 'R') {
		return s
	}
	return "rt" // run-time error: the value's type/text is not compared
}

type obj struct{ v int }

func (o obj) m(tag string)   { logi(tag+".m", o.v) }
func (o *obj) pm(tag string) { logi(tag+".pm", o.v) }

var nilmap map[int]int

//go:noinline
func darg(tag string, v int) { logi(tag, v) }

// two-element range-over-func iterator
func two(yield func(int) bool) {
	if !yield(0) {
		return
	}
	yield(1)
}

// call runs f in its own goroutine and records how it ended: ret:<n>, panic:<v> or goexit
func call(id string, f func() int) {
	cases = append(cases, func() {
		tr = tr[:0]
		done := make(chan string)
		go func() {
			status := "goexit"
			defer func() { done <- status }()
			defer func() {
				if v := recover(); v != nil {
					status = "panic:" + pval(v)
				}
			}()
			r := f()
			status = "ret:" + itoa(int64(r))
		}()
		st := <-done
		emit(id, st+" | "+string(tr))
	})
}
'''

POSITIONS = ["always", "ifT", "ifF", "loop0", "loop1", "loop2", "rf"]
CALLEES = ["plain", "args", "closure", "mval", "pmval", "recover", "repanic", "result"]
TERMS = ["return", "panic", "fault", "goexit", "retloop"]


def defer_stmt(fn, k, callee):
    """returns (top-level decls, statement lines) for site k of function fn. Uses locals x (int), o (obj), res (named result)."""
    tag = "%s.%d" % (fn, k)
    if callee == "plain":
        return ["func p_%s_%d() { logs(\"%s.plain\") }" % (fn, k, tag)], ["defer p_%s_%d()" % (fn, k), "x++"]
    if callee == "args":
        return [], ["defer darg(\"%s.args\", x)" % tag, "x += 10"]
    if callee == "closure":
        return [], ["defer func() { logi(\"%s.clo\", x) }()" % tag, "x += 100"]
    if callee == "mval":
        return [], ["o.v = x", "defer o.m(\"%s\")" % tag, "o.v = -1", "x++"]
    if callee == "pmval":
        return [], ["o.v = x", "defer o.pm(\"%s\")" % tag, "x++"]
    if callee == "recover":
        return [], ["defer func() {\n\t\tif v := recover(); v != nil {\n\t\t\tlogs(\"%s.rec:\" + pval(v))\n\t\t} else {\n\t\t\tlogs(\"%s.rec:nil\")\n\t\t}\n\t}()" % (tag, tag)]
    if callee == "repanic":
        return [], ["defer func() {\n\t\tlogs(\"%s.rep\")\n\t\tpanic(\"R%d\")\n\t}()" % (tag, k)]
    if callee == "result":
        return [], ["defer func() { res = res*10 + %d; logi(\"%s.res\", res) }()" % (k + 1, tag)]
    raise ValueError(callee)


def wrap_position(pos, lines, k):
    ind = lambda ls, n=1: ["\t" * n + l.replace("\n", "\n" + "\t" * n) for l in ls]
    if pos == "always":
        return lines
    if pos == "ifT":
        return ["if yes {"] + ind(lines) + ["}"]
    if pos == "ifF":
        return ["if !yes {"] + ind(lines) + ["}"]
    if pos.startswith("loop"):
        n = int(pos[4:])
        return ["for i%d := 0; i%d < %d+zero; i%d++ {" % (k, k, n, k)] + ind(["x += i%d" % k] + lines) + ["}"]
    if pos == "rf":
        return ["for i%d := range two {" % k] + ind(["x += i%d" % k] + lines) + ["}"]
    raise ValueError(pos)


EARLY = {"return": "if yes {\n\t\treturn 7\n\t}", "panic": "if yes {\n\t\tpanic(\"P0\")\n\t}", "fault": "if yes {\n\t\tnilmap[x] = 1\n\t}",
         "goexit": "if yes {\n\t\truntime.Goexit()\n\t}"}


def gen_func(name, sites, term, at=None):
    """at = k: the function ends (term) before defer site k is reached; the sites from k on are never executed"""
    decls, body = [], []
    for k, (pos, callee) in enumerate(sites):
        if at == k:
            body.append("logs(\"%s.early\")" % name)
            body.append(EARLY[term])
        d, lines = defer_stmt(name, k, callee)
        decls += d
        body += wrap_position(pos, lines, k)
        body.append("logi(\"%s.after%d\", x)" % (name, k))
    if at is not None:
        body.append("return 8")
    elif term == "return":
        body.append("return 7")
    elif term == "panic":
        body.append("if yes {\n\t\tpanic(\"P0\")\n\t}\n\treturn 7")
    elif term == "fault":
        body.append("nilmap[x] = 1\n\treturn 7")
    elif term == "goexit":
        body.append("if yes {\n\t\truntime.Goexit()\n\t}\n\treturn 7")
    elif term == "retloop":
        body.append("for j := 0; j < 3; j++ {\n\t\tdefer darg(\"%s.tail\", j)\n\t\tif j == 1 {\n\t\t\treturn 5\n\t\t}\n\t}\n\treturn 7" % name)
    src = "\n".join(decls) + "\nfunc %s() (res int) {\n\tx := 1\n\tvar o obj\n\t_ = o\n\t" % name + "\n\t".join(l.replace("\n", "\n\t") if not l.startswith("if yes") and not l.startswith("nilmap") and not l.startswith("for j") else l for l in body) + "\n}\n"
    return src


def label(sites, term, at=None):
    return "+".join("%s/%s" % s for s in sites) + ">" + term + ("" if at is None else "@%d" % at)


def shapes(tier):
    out = []
    # L = 1: full
    for s in itertools.product(POSITIONS, CALLEES):
        for t in TERMS:
            out.append(([s], t))
    # L = 2
    if tier == "thorough":
        pos2, cal2, terms2 = POSITIONS, CALLEES, TERMS
    else:
        pos2, cal2, terms2 = ["always", "ifT", "loop2", "rf"], ["plain", "args", "recover", "repanic", "result"], ["return", "panic", "goexit"]
    for s1 in itertools.product(pos2, cal2):
        for s2 in itertools.product(pos2, cal2):
            for t in terms2:
                out.append(([s1, s2], t))
    # L = 3: every order of the three defer mechanisms (always / conditional bit / loop list), argument-less and with arguments
    pos3 = ["always", "ifT", "loop2"] + (["rf"] if tier == "thorough" else [])
    cal3 = ["plain", "args"] + (["recover"] if tier == "thorough" else [])
    for ps in itertools.product(pos3, repeat=3):
        for cs in itertools.product(cal3, repeat=3):
            for t in (["return", "panic"] if tier != "thorough" else ["return", "panic", "goexit"]):
                out.append((list(zip(ps, cs)), t))
    # the function ends before some defer statement is reached (position `at`): never-executed defer statements must not run
    early = []
    epos = ["always", "ifT", "ifF", "loop2"] if tier != "thorough" else ["always", "ifT", "ifF", "loop1", "loop2"]
    ecal = ["plain", "args", "closure", "recover", "result"] if tier != "thorough" else ["plain", "args", "closure", "mval", "pmval", "recover", "repanic", "result"]
    for s1 in itertools.product(epos, ecal):
        for t in ("return", "panic", "fault", "goexit"):
            early.append(([s1], t, 0))
    for s1 in itertools.product(epos, ecal):
        for s2 in itertools.product(epos, ecal):
            for t in (("panic", "goexit") if tier != "thorough" else ("return", "panic", "fault", "goexit")):
                early.append(([s1, s2], t, 1))
    for ps in itertools.product(["always", "ifT", "loop2"], repeat=3):
        for cs in itertools.product(["plain", "args"], repeat=3):
            for at in (1, 2):
                early.append((list(zip(ps, cs)), "panic", at))
    if tier == "thorough":
        for ps in itertools.product(["always", "ifT", "loop2"], repeat=4):
            out.append(([(p, "args") for p in ps], "panic"))
            out.append(([(p, "plain" if i % 2 else "args") for i, p in enumerate(ps)], "return"))
    return out + early   # (appended last: the numbering of the earlier shapes, and with it their #chain variants, stays as it was)


CHAIN = r'''
// call chains: the callee panics / exits, the caller has its own defers (and may recover)
func chainCaller(tag string, f func() int, rec bool) (res int) {
	defer logs(tag + ".outer-last")
	if rec {
		defer func() {
			if v := recover(); v != nil {
				logs(tag + ".outer-rec:" + pval(v))
				res = -3
			}
		}()
	}
	for i := 0; i < 2; i++ {
		defer darg(tag+".outer-loop", i)
	}
	r := f()
	logi(tag+".outer-got", r)
	return r + 100
}
'''


def programs(tier):
    shp = shapes(tier)
    # defers inside range-over-func bodies go into their own programs (rfNN): llgo emits invalid IR for them (known finding),
    # which would otherwise take the whole program down on the clang back end
    groups = {"defer": [s for s in shp if len(s) == 2 and not any(p == "rf" for p, _ in s[0])], "rf": [s for s in shp if len(s) == 2 and any(p == "rf" for p, _ in s[0])],
              "early": [s for s in shp if len(s) == 3]}   # (early-termination shapes last: the numbering of the others is what the known sets were recorded with)
    per = 700
    progs = {}
    n = 0
    for gname, lst in groups.items():
        for pi in range(0, len(lst), per):
            chunk = lst[pi:pi + per]
            src = [PRELUDE.replace('import (\n\t"os"\n\t"unsafe"\n)', 'import (\n\t"os"\n\t"runtime"\n\t"unsafe"\n)'), COMMON.replace('import "runtime"\n', ''), CHAIN, "var yes = true\nvar zero = 0\n"]
            main = []
            for i, shape in enumerate(chunk):
                sites, term = shape[0], shape[1]
                at = shape[2] if len(shape) > 2 else None
                name = "f%d" % n
                src.append(gen_func(name, sites, term, at))
                lab = label(sites, term, at)
                main.append("\tcall(\"%s\", %s)" % (lab, name))
                if n % 5 == 0:
                    main.append("\tcall(\"%s#chain-rec\", func() int { return chainCaller(\"%s\", %s, true) })" % (lab, name, name))
                    main.append("\tcall(\"%s#chain\", func() int { return chainCaller(\"%s\", %s, false) })" % (lab, name, name))
                n += 1
            src.append("func main() {\n" + "\n".join(main) + "\n\trunAll(cases)\n}\n")
            progs["%s%02d" % (gname, pi // per)] = "\n".join(src)
    return progs


if __name__ == "__main__":
    import os
    ps = programs(sys.argv[2] if len(sys.argv) > 2 else "quick")
    for k, v in ps.items():
        d = os.path.join(sys.argv[1], k)
        os.makedirs(d, exist_ok=True)
        open(os.path.join(d, "main.go"), "w").write(v)
        open(os.path.join(d, "go.mod"), "w").write("module vt\n\ngo 1.24\n")
        print(k, len(v))
