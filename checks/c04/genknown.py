#!/usr/bin/env python3
"""MANUAL tool (never run by a check): runs C04 quick and thorough on the current tree and rewrites known/C04_*.txt with the failing case keys,
each attributed to one of the confirmed root causes; anything it cannot attribute is printed and NOT listed."""
import os, re, sys
sys.path.insert(0, "/verif/lib"); sys.path.insert(0, os.path.dirname(os.path.abspath(__file__)))
from common import *
from diff import *
import gen
sets = {"rf": set(), "looporder": set(), "repanic_result": set()}
unattributed = []
raw = []
for tier in ("quick", "thorough"):
    progs = [Prog(n, {"main.go": src}, backends=(("A", ()), ("C", ()))) for n, src in gen.programs(tier).items()]
    results = pmap(lambda p: diff_prog("C04", p, timeout=1800), progs, workers=6)
    for r in results:
        if r["ref_error"]:
            print("REF ERROR", r["name"], r["ref_error"][:300]); continue
        for e in r["configs"]:
            if e["build_error"]:
                if r["name"].startswith("rf"):
                    sets["rf"].add("build:%s:%s" % (r["name"], e["config"]))
                else:
                    print("BUILD ERROR", r["name"], e["config"], e["build_error"][-400:])
                continue
            for cid, want, got, seed in e["diffs"]:
                key = "%s:%s" % (r["name"], cid)
                if "rf/" in cid:
                    sets["rf"].add(key); continue
                if got is None:
                    unattributed.append((key, want, got)); continue
                ws, gs = want.split(" | ", 1), got.split(" | ", 1)
                norm = lambda t: re.sub(r"outer-got=-?\d+", "outer-got=N", t)
                names = lambda t: sorted(re.sub(r"[:=].*", "", x) for x in t.split())
                raw.append((key, want, got))
                nloops = len(re.findall(r"loop[12]/", cid)) + (1 if cid.endswith(">retloop") or ">retloop#" in cid else 0)
                if len(ws) == 2 and len(gs) == 2 and ws[0] == gs[0] and names(ws[1]) == names(gs[1]) and nloops >= 2:
                    sets["looporder"].add(key)      # same deferred calls, wrong order, two loop-defer groups in the function
                elif len(ws) == 2 and len(gs) == 2 and names(ws[1]) == names(gs[1]) and nloops >= 2 and "repanic" in cid and (("recover" in cid) or (ws[0].startswith("panic:") and gs[0].startswith("panic:"))):
                    sets["looporder"].add(key)      # the same, and the wrong order also decides which re-panic is the last one / which recover sees it
                elif len(ws) == 2 and len(gs) == 2 and norm(ws[1]) == norm(gs[1]) and re.match(r"ret:", ws[0]) and re.match(r"ret:", gs[0]) and "repanic" in cid and "recover" in cid:
                    sets["repanic_result"].add(key)  # same trace, the named result assigned before the recovered re-panic is lost
                else:
                    unattributed.append((key, want, got))
    print(tier, {k: len(v) for k, v in sets.items()}, "unattributed", len(unattributed))
import json
json.dump(raw, open("/verif/build/c04raw.json", "w"))
os.makedirs("/verif/known", exist_ok=True)
for name, s in sets.items():
    with open("/verif/known/C04_%s.txt" % name, "w") as f:
        for k in sorted(s):
            f.write(k + "\n")
for u in unattributed[:40]:
    print("UNATTRIBUTED", u[0], "\n   go  :", u[1], "\n   llgo:", u[2])
