#!/usr/bin/env python3
"""C04: defer / panic / recover / Goexit ordering over all functions built from defer sites (position x callee) and a terminator."""
import os, sys
sys.path.insert(0, "/verif/lib"); sys.path.insert(0, os.path.dirname(os.path.abspath(__file__)))
import diffcheck, gen
diffcheck.main("C04", "exploration", gen.programs,
    rule="function = sequence of defer sites, each (position in {always, if-taken, if-not-taken, loop x0/x1/x2, range-over-func body} x callee in {arg-less func, "
         "args evaluated at defer time, closure reading a local, method value on value/pointer receiver, recovering closure, re-panicking closure, closure changing the "
         "named result}) + terminator {return, panic, run-time fault, Goexit, return from inside a loop}: all 1-site shapes, 2-site products, every 3-site order of the "
         "three defer mechanisms with and without arguments; every 5th also called through a caller with its own loop defers (with/without recover). "
         "case = one call; observation = how the goroutine ended + ordered trace of deferred calls with their argument values. non-trivial = distinct traces",
    samples=["f499#always/repanic+loop2/repanic>return panic:R0 | f499.after0=1 f499.after1=2 f499.1.rep f499.1.rep f499.0.rep"],
    assumptions=["panic values of run-time errors are compared only as a class ('rt')", "every call runs in its own goroutine (an OS thread under llgo)"], workers=6)
