#!/usr/bin/env python3
"""C03: every mandated run-time panic is raised at its point, is recoverable, repeatably; in-range operands never panic."""
import os, sys
sys.path.insert(0, "/verif/lib"); sys.path.insert(0, os.path.dirname(os.path.abspath(__file__)))
import diffcheck, gen
diffcheck.main("C03", "exploration", gen.programs,
    rule="index/slice forms: kind {slice, array, *array, string} x 9 index types x every 1/2/3-index form x (len,cap) incl. lengths straddling 127/128, 255/256, 65535/65536 "
         "x the full product of boundary index values {-1,0,1,len-1,len,len+1,cap,cap+1,min,max,...} as run-time values; constant indices on run-time sized containers; "
         "74 fault probes (nil, map, assertion, division, make, slice->array, channel misuse, evaluation-order traces) each once, 3x in one goroutine and once in a fresh goroutine. "
         "case = one row (container, index type) or one probe; non-trivial = distinct rows/probe results",
    samples=["idx2/int8_sl255_256 <N|P + len/cap/first for every (i,j)>", "nil/field4800#repeat PPPgP", "order/index-store P alir"],
    assumptions=["panic values/messages are not compared (llgo raises strings)", "only the panic/no-panic decision, the trace of side effects and the result descriptors are compared"])
