"""C03 generator: every mandated run-time panic, recoverable, repeatable, at the right point - and no spurious ones."""
import sys
sys.path.insert(0, "/verif/lib")
from prelude import PRELUDE

COMMON = r'''
var cases []func()
var trace []byte

func mark(c byte) { trace = append(trace, c) }

// run reports "N" (no panic) or "P" (a panic was raised and recovered)
func run(f func()) (res string) {
	defer func() {
		if recover() != nil {
			res = "P"
		}
	}()
	f()
	return "N"
}

func probe(id string, f func()) {
	cases = append(cases, func() {
		trace = trace[:0]
		r := run(f)
		emit(id, r+" "+string(trace))
	})
}

// the same fault r times in one goroutine, then once in a fresh goroutine
func repeat(id string, f func()) {
	cases = append(cases, func() {
		s := ""
		for i := 0; i < 3; i++ {
			s += run(f)
		}
		done := make(chan string)
		go func() { done <- run(f) }()
		s += "g" + <-done
		emit(id, s)
	})
}
'''

IDX_TYPES = {"int": (64, True), "int8": (8, True), "int16": (16, True), "int32": (32, True), "int64": (64, True),
             "uint8": (8, False), "uint16": (16, False), "uint64": (64, False), "uintptr": (64, False)}


def rng(t):
    b, s = IDX_TYPES[t]
    return (-(1 << (b - 1)), (1 << (b - 1)) - 1) if s else (0, (1 << b) - 1)


def lit(t, v):
    lo, hi = rng(t)
    if v == lo and lo < 0:
        return "%s(%d-1)" % (t, v + 1)
    return "%s(%d)" % (t, v)


# containers: (name, kind, len, cap).  Lengths straddle the narrow index types' ranges on purpose.
SLICES = [(0, 0), (1, 1), (2, 4), (3, 3), (127, 127), (128, 200), (255, 256), (256, 256), (300, 300), (70000, 70000)]
ARRAYS = [0, 1, 3, 128, 256, 300, 70000]
STRINGS = [0, 1, 3, 255, 256, 300]


def idx_values(t, ln, cp):
    lo, hi = rng(t)
    vals = {-1, 0, 1, 2, ln - 1, ln, ln + 1, cp, cp + 1, cp - 1, lo, hi, lo + 1, 127, 128, 255, 256, -128, -129}
    return sorted(v for v in vals if lo <= v <= hi)


def gen_index_prog(idx_types, name):
    out = [PRELUDE, COMMON]
    main = []
    out.append("func mkslice(l, c int) []int {\n\ts := make([]int, l, c)\n\tfor i := range s {\n\t\ts[i] = i + 1\n\t}\n\treturn s\n}")
    out.append("func mkstring(l int) string {\n\tb := make([]byte, l)\n\tfor i := range b {\n\t\tb[i] = byte('a' + i%26)\n\t}\n\treturn string(b)\n}")
    for n in ARRAYS:
        out.append("var arr%d [%d]int\nvar parr%d = &arr%d" % (n, n, n, n))
    out.append("func init() {\n" + "\n".join("\tfor i := range arr%d {\n\t\tarr%d[i] = i + 1\n\t}" % (n, n) for n in ARRAYS if n) + "\n}")
    out.append("func first(s []int) string {\n\tif len(s) == 0 {\n\t\treturn \"-\"\n\t}\n\treturn itoa(int64(s[0]))\n}")
    out.append("func descs(s []int) string { return itoa(int64(len(s))) + \"/\" + itoa(int64(cap(s))) + \"/\" + first(s) }")
    out.append("func descstr(s string) string {\n\tif len(s) == 0 {\n\t\treturn \"0/-\"\n\t}\n\treturn itoa(int64(len(s))) + \"/\" + string(s[0:1])\n}")
    for t in idx_types:
        # generic accessors, index always a run-time value of type t
        out.append("""
//go:noinline
func sl_get_%(t)s(s []int, i %(t)s) int { return s[i] }
//go:noinline
func sl_set_%(t)s(s []int, i %(t)s) { s[i] = -7 }
//go:noinline
func sl_lo_%(t)s(s []int, i %(t)s) []int { return s[i:] }
//go:noinline
func sl_hi_%(t)s(s []int, j %(t)s) []int { return s[:j] }
//go:noinline
func sl_lh_%(t)s(s []int, i, j %(t)s) []int { return s[i:j] }
//go:noinline
func sl_lhm_%(t)s(s []int, i, j, k %(t)s) []int { return s[i:j:k] }
//go:noinline
func sl_hm_%(t)s(s []int, j, k %(t)s) []int { return s[:j:k] }
//go:noinline
func st_get_%(t)s(s string, i %(t)s) byte { return s[i] }
//go:noinline
func st_lo_%(t)s(s string, i %(t)s) string { return s[i:] }
//go:noinline
func st_hi_%(t)s(s string, j %(t)s) string { return s[:j] }
//go:noinline
func st_lh_%(t)s(s string, i, j %(t)s) string { return s[i:j] }
""" % dict(t=t))
        # one evaluation helper per form: returns "P" or a description of the result
        out.append("""
func ev1_%(t)s(f func() string) (res string) {
	defer func() {
		if recover() != nil {
			res = "P"
		}
	}()
	return f()
}
""" % dict(t=t))
        for (ln, cp) in SLICES:
            vals = idx_values(t, ln, cp)
            vl = "[]%s{%s}" % (t, ", ".join(lit(t, v) for v in vals))
            big = ln > 1000
            tag = "%s_sl%d_%d" % (t, ln, cp)
            body = ["\tvals := %s" % vl, "\tvar b []byte", "\tadd := func(s string) { b = append(b, s...); b = append(b, ' ') }"]
            body.append("\ts := mkslice(%d, %d)" % (ln, cp))
            body.append("\tfor _, i := range vals {\n\t\ti := i\n\t\tadd(ev1_%s(func() string { return itoa(int64(sl_get_%s(s, i))) }))\n\t\tadd(ev1_%s(func() string { sl_set_%s(s, i); return \"ok\" }))\n\t\tadd(ev1_%s(func() string { return descs(sl_lo_%s(s, i)) }))\n\t\tadd(ev1_%s(func() string { return descs(sl_hi_%s(s, i)) }))\n\t}" % ((t,) * 8))
            body.append("\temit(\"idx1/%s\", string(b))" % tag)
            out.append("func case_idx1_%s() {\n%s\n}" % (tag, "\n".join(body)))
            main.append("\tcases = append(cases, case_idx1_%s)" % tag)
            if not big:
                # 2- and 3-index forms: full product of the index values (pruned to a smaller alphabet for 3 indices)
                v3 = sorted(set(v for v in vals if v in (-1, 0, 1, ln - 1, ln, ln + 1, cp, cp + 1)))
                vl3 = "[]%s{%s}" % (t, ", ".join(lit(t, v) for v in v3))
                body = ["\tvals := %s" % vl, "\tv3 := %s" % vl3, "\tvar b []byte", "\tadd := func(s string) { b = append(b, s...); b = append(b, ' ') }", "\ts := mkslice(%d, %d)" % (ln, cp)]
                body.append("\tfor _, i := range vals {\n\t\tfor _, j := range vals {\n\t\t\ti, j := i, j\n\t\t\tadd(ev1_%s(func() string { return descs(sl_lh_%s(s, i, j)) }))\n\t\t\tadd(ev1_%s(func() string { return descs(sl_hm_%s(s, i, j)) }))\n\t\t}\n\t}" % ((t,) * 4))
                body.append("\temit(\"idx2/%s\", string(b))\n\tb = b[:0]" % tag)
                body.append("\tfor _, i := range v3 {\n\t\tfor _, j := range v3 {\n\t\t\tfor _, k := range v3 {\n\t\t\t\ti, j, k := i, j, k\n\t\t\t\tadd(ev1_%s(func() string { return descs(sl_lhm_%s(s, i, j, k)) }))\n\t\t\t}\n\t\t}\n\t}" % ((t,) * 2))
                body.append("\temit(\"idx3/%s\", string(b))" % tag)
                out.append("func case_idx23_%s() {\n%s\n}" % (tag, "\n".join(body)))
                main.append("\tcases = append(cases, case_idx23_%s)" % tag)
        for ln in STRINGS:
            vals = idx_values(t, ln, ln)
            vl = "[]%s{%s}" % (t, ", ".join(lit(t, v) for v in vals))
            tag = "%s_st%d" % (t, ln)
            body = ["\tvals := %s" % vl, "\tvar b []byte", "\tadd := func(s string) { b = append(b, s...); b = append(b, ' ') }", "\ts := mkstring(%d)" % ln]
            body.append("\tfor _, i := range vals {\n\t\ti := i\n\t\tadd(ev1_%s(func() string { return itoa(int64(st_get_%s(s, i))) }))\n\t\tadd(ev1_%s(func() string { return descstr(st_lo_%s(s, i)) }))\n\t\tadd(ev1_%s(func() string { return descstr(st_hi_%s(s, i)) }))\n\t\tfor _, j := range vals {\n\t\t\tj := j\n\t\t\tadd(ev1_%s(func() string { return descstr(st_lh_%s(s, i, j)) }))\n\t\t}\n\t}" % ((t,) * 8))
            body.append("\temit(\"str/%s\", string(b))" % tag)
            out.append("func case_str_%s() {\n%s\n}" % (tag, "\n".join(body)))
            main.append("\tcases = append(cases, case_str_%s)" % tag)
        for n in ARRAYS:
            vals = idx_values(t, n, n)
            vl = "[]%s{%s}" % (t, ", ".join(lit(t, v) for v in vals))
            tag = "%s_arr%d" % (t, n)
            out.append("""
//go:noinline
func ar_get_%(tag)s(i %(t)s) int { return arr%(n)d[i] }
//go:noinline
func ar_set_%(tag)s(i %(t)s) { arr%(n)d[i] = arr%(n)d[i] }
//go:noinline
func pa_get_%(tag)s(p *[%(n)d]int, i %(t)s) int { return p[i] }
//go:noinline
func pa_lh_%(tag)s(p *[%(n)d]int, i, j %(t)s) []int { return p[i:j] }
//go:noinline
func ar_lhm_%(tag)s(i, j, k %(t)s) []int { return arr%(n)d[i:j:k] }
""" % dict(tag=tag, t=t, n=n))
            v3 = sorted(set(v for v in vals if v in (-1, 0, 1, n - 1, n, n + 1)))
            vl3 = "[]%s{%s}" % (t, ", ".join(lit(t, v) for v in v3))
            body = ["\tvals := %s" % vl, "\tv3 := %s" % vl3, "\tvar b []byte", "\tadd := func(s string) { b = append(b, s...); b = append(b, ' ') }"]
            body.append("\tfor _, i := range vals {\n\t\ti := i\n\t\tadd(ev1_%s(func() string { return itoa(int64(ar_get_%s(i))) }))\n\t\tadd(ev1_%s(func() string { ar_set_%s(i); return \"ok\" }))\n\t\tadd(ev1_%s(func() string { return itoa(int64(pa_get_%s(parr%d, i))) }))\n\t}" % (t, tag, t, tag, t, tag, n))
            body.append("\tfor _, i := range v3 {\n\t\tfor _, j := range v3 {\n\t\t\ti, j := i, j\n\t\t\tadd(ev1_%s(func() string { return descs(pa_lh_%s(parr%d, i, j)) }))\n\t\t\tfor _, k := range v3 {\n\t\t\t\tk := k\n\t\t\t\tadd(ev1_%s(func() string { return descs(ar_lhm_%s(i, j, k)) }))\n\t\t\t}\n\t\t}\n\t}" % (t, tag, n, t, tag))
            body.append("\temit(\"arr/%s\", string(b))" % tag)
            out.append("func case_arr_%s() {\n%s\n}" % (tag, "\n".join(body)))
            main.append("\tcases = append(cases, case_arr_%s)" % tag)
    out.append("func main() {\n" + "\n".join(main) + "\n\trunAll(cases)\n}\n")
    return "\n".join(out)


def gen_const_prog():
    """constant indices (folded 'provably safe' paths) on run-time sized and fixed containers."""
    out = [PRELUDE, COMMON]
    main = []
    out.append("func mkslice(l, c int) []int {\n\ts := make([]int, l, c)\n\tfor i := range s {\n\t\ts[i] = i + 1\n\t}\n\treturn s\n}")
    out.append("func mkstring(l int) string {\n\tb := make([]byte, l)\n\tfor i := range b {\n\t\tb[i] = byte('a' + i%26)\n\t}\n\treturn string(b)\n}")
    out.append("func first(s []int) string {\n\tif len(s) == 0 {\n\t\treturn \"-\"\n\t}\n\treturn itoa(int64(s[0]))\n}")
    out.append("func descs(s []int) string { return itoa(int64(len(s))) + \"/\" + itoa(int64(cap(s))) + \"/\" + first(s) }")
    out.append("var arr3 = [3]int{1, 2, 3}\nvar parr3 = &arr3\nvar nilarr *[3]int")
    consts = [0, 1, 2, 3, 4, 5, 255, 256]
    n = 0
    for c in consts:
        forms = [("s[%d]" % c, "itoa(int64(s[%d]))" % c), ("s[%d:]" % c, "descs(s[%d:])" % c), ("s[:%d]" % c, "descs(s[:%d])" % c)]
        for c2 in consts:
            if c2 >= c:
                forms.append(("s[%d:%d]" % (c, c2), "descs(s[%d:%d])" % (c, c2)))
                for c3 in (c2, c2 + 1, 4):
                    if c3 >= c2:
                        forms.append(("s[%d:%d:%d]" % (c, c2, c3), "descs(s[%d:%d:%d])" % (c, c2, c3)))
        for label, expr in forms:
            n += 1
            out.append("//go:noinline\nfunc cf%d(s []int) string { return %s }" % (n, expr))
            main.append("\tfor _, lc := range [][2]int{{0, 0}, {1, 1}, {2, 4}, {3, 3}, {300, 300}} {\n\t\tlc := lc\n\t\tprobeS(\"const/%s/len=\"+itoa(int64(lc[0]))+\",cap=\"+itoa(int64(lc[1])), func() string { return cf%d(mkslice(lc[0], lc[1])) })\n\t}" % (label, n))
        # strings and in-range array constants mixed with a variable bound
        n += 1
        out.append("//go:noinline\nfunc cf%d(s string) string { return string(s[%d:]) }" % (n, c))
        main.append("\tfor _, l := range []int{0, 1, 3, 300} {\n\t\tl := l\n\t\tprobeS(\"const/str[%d:]/len=\"+itoa(int64(l)), func() string { return itoa(int64(len(cf%d(mkstring(l))))) })\n\t}" % (c, n))
        if c <= 3:
            n += 1
            out.append("//go:noinline\nfunc cf%d(j int) string { return descs(arr3[%d:j]) }" % (n, c))
            main.append("\tfor _, j := range []int{-1, 0, 1, 2, 3, 4} {\n\t\tj := j\n\t\tprobeS(\"const/arr3[%d:j]/j=\"+itoa(int64(j)), func() string { return cf%d(j) })\n\t}" % (c, n))
            n += 1
            out.append("//go:noinline\nfunc cf%d(p *[3]int) string { return descs(p[%d:]) }" % (n, c))
            main.append("\tprobeS(\"const/parr3[%d:]\", func() string { return cf%d(parr3) })\n\tprobeS(\"const/nilarr[%d:]\", func() string { return cf%d(nilarr) })" % (c, n, c, n))
    out.append("func probeS(id string, f func() string) {\n\tcases = append(cases, func() {\n\t\tres := \"\"\n\t\tr := run(func() { res = f() })\n\t\temit(id, r+\" \"+res)\n\t})\n}")
    out.append("func main() {\n" + "\n".join(main) + "\n\trunAll(cases)\n}\n")
    return "\n".join(out)


FAULTS = r'''
type T struct {
	a int
	b [600]int64 // field beyond the 4 KiB guard page
	c int
}
type Big struct{ pad [1 << 20]byte; tail int }
type I interface{ M() int }
type J interface{ N() }
type V struct{ x int }

func (v V) M() int   { return v.x }
func (v *V) PM() int { return v.x }

var (
	nilT    *T
	nilBig  *Big
	nilInt  *int
	nilMap  map[string]int
	nilFunc func() int
	nilI    I
	nilV    *V
	anyInt  any = 7
	anyStr  any = "s"
	anyNil  any
	anyV    any = V{3}
	sl5         = []int{1, 2, 3, 4, 5}
	zero    int
	sink    int
	neg     = -1
	huge    = 1 << 62
	ch0     chan int
)

//go:noinline
func id(x int) int { return x }

func lhs() []int   { mark('l'); return sl5 }
func idx9() int    { mark('i'); return 9 }
func idx1() int    { mark('i'); return 1 }
func rhs() int     { mark('r'); return 5 }
func mp() map[string]int { mark('m'); return nilMap }
func key() string  { mark('k'); return "k" }

func faults() {
	// nil dereference: load / store / field at increasing offsets (signal path vs explicit check)
	both("nil/load", func() { mark('a'); sink = *nilInt; mark('b') })
	both("nil/store", func() { mark('a'); *nilInt = 1; mark('b') })
	both("nil/field0", func() { mark('a'); sink = nilT.a; mark('b') })
	both("nil/field4800", func() { mark('a'); sink = nilT.c; mark('b') })
	both("nil/field4800store", func() { mark('a'); nilT.c = 1; mark('b') })
	both("nil/arrayelem", func() { mark('a'); sink = int(nilT.b[599]); mark('b') })
	both("nil/field1MiB", func() { mark('a'); sink = nilBig.tail; mark('b') })
	both("nil/field1MiBstore", func() { mark('a'); nilBig.tail = 2; mark('b') })
	both("nil/copystruct", func() { mark('a'); t := *nilT; sink = t.a; mark('b') })
	both("nil/valuemethod", func() { mark('a'); sink = nilV.M(); mark('b') })
	// the same loads with the result discarded: Go still requires the nil check
	probe("nil/load-discard", func() { mark('a'); _ = *nilInt; mark('b') })
	probe("nil/field0-discard", func() { mark('a'); _ = nilT.a; mark('b') })
	probe("nil/field4800-discard", func() { mark('a'); _ = nilT.c; mark('b') })
	probe("nil/field1MiB-discard", func() { mark('a'); _ = nilBig.tail; mark('b') })
	probe("nil/arrayptr-index-discard", func() { var p *[4]int; mark('a'); _ = p[id(1)]; mark('b') })
	both("nil/ptrmethod-no-deref", func() { mark('a'); _ = nilV != nil; mark('b') })
	both("nil/funccall", func() { mark('a'); _ = nilFunc(); mark('b') })
	both("nil/ifacecall", func() { mark('a'); _ = nilI.M(); mark('b') })
	both("nil/arrayptr-index", func() { var p *[4]int; mark('a'); sink = p[id(1)]; mark('b') })
	both("nil/arrayptr-range-ok", func() { var p *[4]int; mark('a'); for range p { mark('x') }; mark('b') })
	both("nil/arrayptr-len-ok", func() { var p *[4]int; mark('a'); _ = len(p); mark('b') })
	// maps
	both("map/nilread-ok", func() { mark('a'); _ = nilMap["x"]; mark('b') })
	both("map/nilreadok-ok", func() { mark('a'); _, ok := nilMap["x"]; _ = ok; mark('b') })
	both("map/nildelete-ok", func() { mark('a'); delete(nilMap, "x"); mark('b') })
	both("map/nillen-ok", func() { mark('a'); _ = len(nilMap); mark('b') })
	both("map/nilrange-ok", func() { mark('a'); for range nilMap { mark('x') }; mark('b') })
	both("map/nilwrite", func() { mark('a'); nilMap["x"] = 1; mark('b') })
	both("map/nilwrite-order", func() { mark('a'); mp()[key()] = rhs(); mark('b') })
	both("map/unhashable", func() { m := map[any]int{}; mark('a'); m[[]int{1}] = 1; mark('b') })
	both("map/unhashable-read", func() { m := map[any]int{}; mark('a'); _ = m[[]int{1}]; mark('b') })
	// type assertions
	both("assert/ok", func() { mark('a'); _ = anyInt.(int); mark('b') })
	both("assert/wrongtype", func() { mark('a'); _ = anyInt.(string); mark('b') })
	both("assert/nil", func() { mark('a'); _ = anyNil.(int); mark('b') })
	both("assert/commaok-ok", func() { mark('a'); _, ok := anyInt.(string); _ = ok; mark('b') })
	both("assert/iface-ok", func() { mark('a'); _ = anyV.(I); mark('b') })
	both("assert/iface-missing", func() { mark('a'); _ = anyV.(J); mark('b') })
	both("assert/iface-nil", func() { mark('a'); _ = anyNil.(I); mark('b') })
	both("assert/nil-iface-to-any", func() { mark('a'); _ = any(nilI).(any); mark('b') })
	both("assert/nil-I-to-emptyiface", func() { var e error; mark('a'); _ = e.(interface{}); mark('b') })
	both("assert/nil-I-commaok", func() { var e error; mark('a'); _, ok := e.(interface{}); if ok { mark('y') }; mark('b') })
	both("assert/typeswitch-nil", func() { var e error; mark('a'); switch any(e).(type) { case nil: mark('n'); case any: mark('y') }; mark('b') })
	both("assert/ptr-vs-value", func() { var x any = &V{1}; mark('a'); _ = x.(V); mark('b') })
	// integer division
	both("div/zero", func() { mark('a'); _ = id(5) / zero; mark('b') })
	both("div/remzero", func() { mark('a'); _ = id(5) % zero; mark('b') })
	both("div/order", func() { mark('a'); _ = rhs() / idx0(); mark('b') })
	// make
	both("make/neglen", func() { mark('a'); _ = make([]int, neg); mark('b') })
	both("make/negcap", func() { mark('a'); _ = make([]int, 0, neg); mark('b') })
	both("make/caplesslen", func() { l := id(5); c := id(4); mark('a'); _ = make([]int, l, c); mark('b') })
	both("make/huge", func() { mark('a'); _ = make([]int, huge); mark('b') })
	both("make/huge-bytes", func() { mark('a'); _ = make([]byte, huge*4); mark('b') })
	both("make/huge-zero-size-ok", func() { mark('a'); s := make([]struct{}, huge); _ = len(s); mark('b') })
	both("make/zero-ok", func() { mark('a'); _ = make([]int, zero); mark('b') })
	both("make/big1MiBelem-neg", func() { mark('a'); _ = make([][1 << 20]byte, neg); mark('b') })
	both("make/chan-neg", func() { mark('a'); _ = make(chan int, neg); mark('b') })
	both("make/chan-huge", func() { mark('a'); _ = make(chan int, huge); mark('b') })
	both("make/map-neg-ok", func() { mark('a'); _ = make(map[int]int, neg); mark('b') })
	// slice -> array conversions
	both("s2a/short", func() { s := sl5[:id(2)]; mark('a'); _ = [3]int(s); mark('b') })
	both("s2a/exact-ok", func() { s := sl5[:id(3)]; mark('a'); _ = [3]int(s); mark('b') })
	both("s2a/long-ok", func() { s := sl5[:id(4)]; mark('a'); _ = [3]int(s); mark('b') })
	both("s2a/ptr-short", func() { s := sl5[:id(2)]; mark('a'); _ = (*[3]int)(s); mark('b') })
	both("s2a/ptr-nil-zero-ok", func() { var s []int; mark('a'); _ = (*[0]int)(s); mark('b') })
	both("s2a/ptr-nil-one", func() { var s []int; mark('a'); _ = (*[1]int)(s); mark('b') })
	// channels
	both("chan/send-closed", func() { c := make(chan int, 1); close(c); mark('a'); c <- 1; mark('b') })
	both("chan/send-closed-unbuf", func() { c := make(chan int); close(c); mark('a'); c <- 1; mark('b') })
	both("chan/close-closed", func() { c := make(chan int); close(c); mark('a'); close(c); mark('b') })
	both("chan/close-nil", func() { mark('a'); close(ch0); mark('b') })
	both("chan/recv-closed-ok", func() { c := make(chan int, 1); c <- 4; close(c); mark('a'); v, ok := <-c; if v == 4 && ok { mark('v') }; v, ok = <-c; if v == 0 && !ok { mark('z') }; mark('b') })
	both("chan/select-send-closed", func() { c := make(chan int, 1); close(c); mark('a'); select { case c <- 1: mark('s'); default: mark('d') }; mark('b') })
	// statement position / evaluation order around an index fault
	both("order/index-store", func() { mark('a'); lhs()[idx9()] = rhs(); mark('b') })
	both("order/index-store-ok", func() { mark('a'); lhs()[idx1()] = rhs(); mark('b') })
	both("order/index-load-arg", func() { mark('a'); _ = id(lhs()[idx9()]); mark('b') })
	both("order/two-stmts", func() { x := 0; mark('a'); x = id(1); _ = sl5[id(7)]; x = 2; _ = x; mark('b') })
	both("order/side-effect-kept", func() { g := 0; defer func() { if g == 1 { mark('g') } }(); mark('a'); g = 1; _ = sl5[id(7)]; g = 2; mark('b') })
	both("order/string-index", func() { s := "abc"; mark('a'); _ = s[id(3)]; mark('b') })
	// explicit panics with values of every kind are recoverable too
	both("panic/int", func() { mark('a'); panic(1) })
	both("panic/error", func() { mark('a'); panic(errT{}) })
	both("panic/nested-recover", func() { mark('a'); func() { defer func() { if recover() != nil { mark('r') } }(); _ = sl5[id(9)] }(); mark('b') })
}

type errT struct{}

func (errT) Error() string { return "e" }

func idx0() int { mark('i'); return 0 }

func both(id string, f func()) {
	probe(id, f)
	repeat(id+"#repeat", f)
}

func main() {
	faults()
	runAll(cases)
}
'''


def gen_fault_prog():
    return PRELUDE + COMMON + FAULTS


def programs(tier):
    ps = {
        "idx_a": gen_index_prog(["int", "int8", "uint8"], "a"),
        "idx_b": gen_index_prog(["int16", "uint16", "int32"], "b"),
        "idx_c": gen_index_prog(["int64", "uint64", "uintptr"], "c"),
        "const": gen_const_prog(),
        "faults": gen_fault_prog(),
    }
    return ps


if __name__ == "__main__":
    import os
    for k, v in programs("quick").items():
        d = os.path.join(sys.argv[1], k)
        os.makedirs(d, exist_ok=True)
        open(os.path.join(d, "main.go"), "w").write(v)
        open(os.path.join(d, "go.mod"), "w").write("module vt\n\ngo 1.24\n")
        print(k, len(v))
