#!/usr/bin/env python3
"""C19: Go<->Python conversions, positional calls, lookups and import-once; expected text computed by /usr/bin/python3.11 for the same cases."""
import argparse, os, shutil, subprocess, sys
sys.path.insert(0, "/verif/lib"); sys.path.insert(0, os.path.dirname(os.path.abspath(__file__)))
from common import *
from diff import *
import gen
HERE = os.path.dirname(os.path.abspath(__file__))
PYLIB = "/usr/lib/x86_64-linux-gnu/python3.11"
ap = argparse.ArgumentParser()
ap.add_argument("--id", default="C19"); ap.add_argument("--tier", default=os.environ.get("VERIF_TIER", "quick")); ap.add_argument("--replay")
a = ap.parse_args()
rep = Report("C19", a.tier, "exploration")
ncases = ndist = 0
for name, files in gen.programs(a.tier).items():
    d = workdir("C19", name)
    src = os.path.join(d, "src")
    files = dict(files); files["go.sum"] = open(os.path.join(HERE, "go.sum")).read()
    write_module(src, files)
    pymods = os.path.join(src, "pymods")
    r = subprocess.run(["/usr/bin/python3.11", os.path.join(src, "ref.py"), pymods], capture_output=True, text=True)
    if r.returncode != 0:
        rep.violation("harness:ref", "the CPython reference failed:\n" + r.stderr[-2000:]); continue
    want, order = parse_cases(r.stdout)
    ncases += len(want); ndist += len(set(want.values()))
    for backend in (("A",) if a.tier == "quick" else ("A", "C")):
        exe = os.path.join(d, "llgo_%s.exe" % backend)
        try:
            build_llgo(src, exe, backend=backend, env_extra={"LLGO_LIB_PYTHON": PYLIB}, cachetag="-py")
        except BuildError as e:
            rep.violation("build:%s:%s" % (name, backend), "llgo failed to build the Python program:\n" + str(e)[-2500:]); continue
        cases, _, crashes = run_batch(exe, timeout=120, env_extra={"PYTHONPATH": pymods})
        for cid in order:
            if cases.get(cid) != want[cid]:
                rep.violation("%s:%s" % (name, cid), "[%s] case %s: llgo program prints %r, CPython gives %r (see %s)" % (backend, cid, cases.get(cid), want[cid], src),
                              {"program": name, "case": cid})
rep.coverage.update(evaluations=ncases, distinct_nontrivial=ndist, exhaustive=True, programs=1,
    samples=["py.List(uint64(1<<63)) -> [9223372036854775808]", "m1.Echo(11,'b',3.5,[4],(5,5),-6) -> (11, 'b', 3.5, [4], (5, 5), -6)"],
    rule="conversions: every integer type at its boundary values, special floats, strings (empty, non-ASCII, quotes, 1 KiB) and nested lists/tuples through py.List/py.Tuple and the "
         "explicit constructors, shown by Python's own str/repr and read back; calls: arity 0..6 and all orders of 3 distinguishable arguments through two test modules; attribute and module "
         "lookup by name; a Python call from a package init function; import log (each module once). non-trivial = distinct expected texts")
rep.assumptions += ["oracle: /usr/bin/python3.11 running the same calls", "the relative import order of different modules is not compared"]
rep.finish()
