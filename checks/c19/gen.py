"""C19 generator: Go<->Python value conversions, positional calls, attribute/module lookups and import-once, with the expected text computed by CPython."""
import itertools, sys

INTS = {  # Go type -> boundary values
    "int8": [-128, -1, 0, 127], "int16": [-32768, 32767], "int32": [-2**31, 2**31 - 1], "int64": [-2**63, -1, 0, 2**31, 2**63 - 1], "int": [-2**63, 2**63 - 1],
    "uint8": [0, 255], "uint16": [65535], "uint32": [2**32 - 1], "uint64": [0, 2**63 - 1, 2**63, 2**63 + 12345, 2**64 - 1], "uint": [2**63, 2**64 - 1], "uintptr": [2**63, 2**64 - 1],
}
FLOATS = [("0.0", "0.0"), ("negz", "-0.0"), ("1.5", "1.5"), ("-2.25", "-2.25"), ("1e308", "1e308"), ("5e-324", "5e-324"), ("posinf", "float('inf')"), ("neginf", "float('-inf')"), ("nan", "float('nan')")]
FLOATS32 = [("float32(1.5)", "1.5"), ("float32(16777217)", "16777216.0")]
STRS = ["", "a", "héllo 世", "tab\there", "q'\"uote", "x" * 1024]


def golit_int(t, v):
    if v == -2**63:
        return "%s(-1<<63)" % t
    return "%s(%d)" % (t, v)


def gostr(s):
    return '"' + "".join(ch if (32 <= ord(ch) < 127 and ch not in '"\\') else "\\u%04x" % ord(ch) for ch in s) + '"'


def programs(tier):
    go, py = [], []   # parallel lists of (case id, go expression producing *py.Object or Go code block, python expression)
    n = 0
    def case(go_expr, py_expr, pre=""):
        nonlocal n
        n += 1
        go.append((n, pre, go_expr))
        py.append((n, py_expr))
    # A. conversions through py.List / py.Tuple (the compiler's PyVal lowering), single and mixed
    for t, vals in INTS.items():
        for v in vals:
            case("py.List(%s)" % golit_int(t, v), "[%d]" % v)
            case("py.Tuple(%s, %s)" % (golit_int(t, v), golit_int(t, v)), "(%d, %d)" % (v, v))
    for g, p in FLOATS + FLOATS32:
        case("py.List(%s)" % g, "[%s]" % p)
    for s in STRS:
        case("py.List(%s)" % gostr(s), "[%r]" % s)
        case("py.Tuple(py.Str(%s), %s)" % (gostr(s), gostr(s)), "(%r, %r)" % (s, s))
    case("py.List(py.List(1, 2), py.Tuple(\"a\", 1.5), py.List(), py.Tuple())", "[[1, 2], ('a', 1.5), [], ()]")
    case("py.Tuple(py.Tuple(py.List(int8(-1), uint64(1<<63)), \"z\"), true, false)", "(([-1, 9223372036854775808], 'z'), True, False)")
    # explicit constructors and read-back
    for v in (-2**63, -1, 0, 2**63 - 1):
        case("py.FromGoString(itoa(int64(py.LongLong(%s).LongLong())))" % ("-1<<63" if v == -2**63 else str(v)), "str(%d)" % v)
    for v in (0, 2**63, 2**64 - 1):
        case("py.FromGoString(utoa(uint64(py.UlongLong(%d).UlongLong())))" % v, "str(%d)" % v)
    for g, p in FLOATS[:9]:
        case("py.FromGoString(f64s(py.Float(float64(%s)).Float64()))" % g, "f64s(%s)" % p)
    for s in STRS:
        case("py.FromGoString(lenAndSum(py.Str(%s)))" % gostr(s), "lenAndSum(%r)" % s)
    # B. positional calls of arity 0..6, every argument position distinguishable
    vals_go = ["py.LongLong(11)", "py.Str(\"b\")", "py.Float(3.5)", "py.List(4)", "py.Tuple(5, 5)", "py.LongLong(-6)"]
    vals_py = ["11", "'b'", "3.5", "[4]", "(5, 5)", "-6"]
    for k in range(0, 7):
        case("m1.Echo(%s)" % ", ".join(vals_go[:k]), "vtm1.echo(%s)" % ", ".join(vals_py[:k]))
    for perm in itertools.permutations(range(3)):
        case("m1.Echo(%s)" % ", ".join(vals_go[i] for i in perm), "vtm1.echo(%s)" % ", ".join(vals_py[i] for i in perm))
    case("m2.Six(%s)" % ", ".join(vals_go), "vtm2.six(%s)" % ", ".join(vals_py))
    case("m1.Sub(py.LongLong(10), py.LongLong(3)).Str()", "str(vtm1.sub(10, 3))")
    case("m1.Sub(py.Float(0.5), py.LongLong(3)).Str()", "str(vtm1.sub(0.5, 3))")
    case("m1.Ident(py.List(1, \"x\")).Str()", "str(vtm1.ident([1, 'x']))")
    # C. attribute and module lookups by name
    case("m1.Name", "vtm1.NAME")
    case("m2.Name", "vtm2.NAME")
    case("py.ImportModule(c.Str(\"vtm1\")).GetAttrString(c.Str(\"NAME\"))", "importlib.import_module('vtm1').NAME")
    case("py.FromGoString(btoa(py.ImportModule(c.Str(\"vtm2\")).GetAttrString(c.Str(\"NAME\")) == m2.Name))", "'t'")
    case("user.FromOtherPackage()", "vtm1.echo('from-user', 7)")
    case("user.InitResult()", "vtm1.echo('init', 1)")
    # D. import once: every module exactly once in the log, however many Go packages use it
    case("py.FromGoString(sortedLog(m1.Log()))", "sortedLog(vtm1.log())")

    main = ["package main\n\nimport (\n\t\"os\"\n\t\"unsafe\"\n\n\t\"github.com/goplus/lib/c\"\n\t\"github.com/goplus/lib/py\"\n\t\"vt/m1\"\n\t\"vt/m2\"\n\t\"vt/user\"\n)\n"]
    main.append(HELPERS)
    body = []
    for cid, pre, expr in go:
        body.append("\tcases = append(cases, func() {\n\t\t%s\n\t\temit(\"c%03d\", show(%s))\n\t})" % (pre, cid, expr))
    main.append("func main() {\n" + "\n".join(body) + "\n\trunAll(cases)\n}\n")
    ref = [PYHELP]
    for cid, expr in py:
        ref.append("emit('c%03d', %s)" % (cid, expr))
    files = {"main.go": "\n".join(main), "m1/m1.go": M1, "m2/m2.go": M2, "user/user.go": USER, "ref.py": "\n".join(ref) + "\n",
             "pymods/vtm1.py": VTM1, "pymods/vtm2.py": VTM2, "go.mod": "module vt\n\ngo 1.24\n\nrequire github.com/goplus/lib v0.3.1\n"}
    return {"pyconv": files}


HELPERS = r'''
var _ = unsafe.Pointer(nil)
var cases []func()

func utoa(v uint64) string {
	if v == 0 {
		return "0"
	}
	var b [24]byte
	i := len(b)
	for v > 0 {
		i--
		b[i] = byte('0' + v%10)
		v /= 10
	}
	return string(b[i:])
}

func itoa(v int64) string {
	if v < 0 {
		return "-" + utoa(uint64(-(v+1))+1)
	}
	return utoa(uint64(v))
}

func btoa(b bool) string {
	if b {
		return "t"
	}
	return "f"
}

var fzero float64
var negz = -fzero
var posinf = 1 / fzero
var neginf = -1 / fzero
var nan = fzero / fzero

func f64s(f float64) string {
	if f != f {
		return "nan"
	}
	return utoa(*(*uint64)(unsafe.Pointer(&f)))
}

// the UTF-8 bytes of a Python str as Go sees them
func lenAndSum(o *py.Object) string {
	s := c.GoString(o.CStr())
	h := uint64(0)
	for i := 0; i < len(s); i++ {
		h = h*131 + uint64(s[i])
	}
	return itoa(int64(len(s))) + ":" + utoa(h)
}

func sortedLog(o *py.Object) string {
	s := c.GoString(o.CStr())
	n1, n2 := 0, 0
	for i := 0; i+4 < len(s); i++ {
		if s[i:i+4] == "vtm1" {
			n1++
		}
		if s[i:i+4] == "vtm2" {
			n2++
		}
	}
	return "vtm1x" + itoa(int64(n1)) + " vtm2x" + itoa(int64(n2))
}

// show renders a Python object with str() (str results are shown as they are)
func show(o *py.Object) string {
	if o == nil {
		return "<nil>"
	}
	return c.GoString(o.Str().CStr())
}

func emit(id, obs string) {
	os.Stdout.WriteString("CASE " + id + " " + obs + "\n")
}

func runAll(cs []func()) {
	start := 0
	if len(os.Args) > 1 {
		for _, ch := range os.Args[1] {
			start = start*10 + int(ch-'0')
		}
	}
	for i := start; i < len(cs); i++ {
		os.Stdout.WriteString("NEXT " + itoa(int64(i)) + "\n")
		cs[i]()
	}
	os.Stdout.WriteString("ALLDONE\n")
}
'''

PYHELP = r'''import sys, struct, importlib
sys.path.insert(0, sys.argv[1])
import vtm1, vtm2
vtm1.echo('init', 1)  # what package user's init() did
def emit(i, v): print("CASE %s %s" % (i, str(v)))
def f64s(f):
    if f != f: return "nan"
    return str(struct.unpack("<Q", struct.pack("<d", f))[0])
def lenAndSum(s):
    b = s.encode("utf-8"); h = 0
    for x in b: h = (h * 131 + x) % (1 << 64)
    return "%d:%d" % (len(b), h)
def sortedLog(s): return "vtm1x%d vtm2x%d" % (s.count("vtm1"), s.count("vtm2"))
'''

VTM1 = '''import builtins
builtins._vt_log = getattr(builtins, "_vt_log", []) + ["vtm1"]
NAME = "module-one"
def echo(*args): return repr(args)
def sub(a, b): return a - b
def log(): return repr(builtins._vt_log)
def ident(x): return x
'''
VTM2 = '''import builtins
builtins._vt_log = getattr(builtins, "_vt_log", []) + ["vtm2"]
NAME = "module-two"
def echo(*args): return "m2" + repr(args)
def six(a, b, c, d, e, f): return repr((f, e, d, c, b, a))
'''
M1 = '''package m1

import (
	_ "unsafe"

	"github.com/goplus/lib/py"
)

const LLGoPackage = "py.vtm1"

//go:linkname Echo py.echo
func Echo(__llgo_va_list ...any) *py.Object

//go:linkname Sub py.sub
func Sub(a, b *py.Object) *py.Object

//go:linkname Log py.log
func Log() *py.Object

//go:linkname Ident py.ident
func Ident(x *py.Object) *py.Object

//go:linkname Name py.NAME
var Name *py.Object
'''
M2 = '''package m2

import (
	_ "unsafe"

	"github.com/goplus/lib/py"
)

const LLGoPackage = "py.vtm2"

//go:linkname Echo py.echo
func Echo(__llgo_va_list ...any) *py.Object

//go:linkname Six py.six
func Six(a, b, c, d, e, f *py.Object) *py.Object

//go:linkname Name py.NAME
var Name *py.Object
'''
USER = '''package user

import (
	"github.com/goplus/lib/py"
	"vt/m1"
)

var initResult *py.Object

// a Python call from an init function of a package that has no other initialisers
func init() {
	initResult = m1.Echo(py.Str("init"), py.LongLong(1))
}

func InitResult() *py.Object { return initResult }

func FromOtherPackage() *py.Object { return m1.Echo(py.Str("from-user"), py.LongLong(7)) }
'''
