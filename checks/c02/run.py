#!/usr/bin/env python3
"""C02: table-driven evaluators (8-bit exhaustive, 16-bit unary/conversions exhaustive, boundary products above) built by llgo
from the working tree and by go1.24.0; every row of results must be identical."""
import argparse, json, os, sys
sys.path.insert(0, "/verif/lib"); sys.path.insert(0, os.path.dirname(os.path.abspath(__file__)))
from common import *
from diff import *
import gen
ap = argparse.ArgumentParser()
ap.add_argument("--id", default="C02"); ap.add_argument("--tier", default=os.environ.get("VERIF_TIER", "quick")); ap.add_argument("--replay")
a = ap.parse_args()
thorough = a.tier == "thorough"
rep = Report("C02", a.tier, "exploration")
backends = (("A", ()), ("C", ())) if not thorough else (("A", ()), ("C", ()), ("A", ("nogc",)))
progs = [Prog(name, {"main.go": src}, backends=backends) for name, src in gen.programs(a.tier).items()]
if a.replay:
    want = json.load(open(a.replay))["replay"]["program"]
    progs = [p for p in progs if p.name == want]
results = pmap(lambda p: diff_prog("C02", p, timeout=900), progs, workers=8)
nprog, ncases, ndist = report_diff(rep, "C02", results)
evals = 0
for r in results:
    pass
rep.coverage.update(evaluations=ncases, distinct_nontrivial=ndist, programs=nprog, exhaustive=True,
    backends=[b[0] + ("+" + ",".join(b[1]) if b[1] else "") for b in backends],
    samples=["add_int8/all/a=-128 <256 results>", "shl_uint8_uint64/a=1 <results over counts 0..2^64-1>", "div_complex128/a#17 <81 results>"],
    rule="case = one row of results: (operator, type, form, left operand) over all right operands. 8-bit: all 65536 pairs per operator, all 256 values per unary/conversion; "
         "16-bit: all 65536 values per unary/conversion; wider types: full cross product of the boundary alphabet; shifts: operand type x count type x boundary counts "
         "(variable and constant counts); operands as variable/constant on either side. evaluations = rows compared; distinct_nontrivial = distinct row contents in the reference output")
rep.assumptions += ["reference = go1.24.0 on linux/amd64", "backend C = llgo -O0 IR compiled by clang 22 -O2 (LLVM 14's own O2 pipeline is unusable here)",
                    "NaN payloads are not compared (printed as NaN); float->int only for representable values"]
rep.finish()
