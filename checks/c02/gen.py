"""C02 generator: table-driven evaluators for every numeric operator/conversion (see DESIGN §4 C02)."""
import sys
sys.path.insert(0, "/verif/lib")
from prelude import PRELUDE

INTS = {  # name: (bits, signed)
    "int8": (8, True), "int16": (16, True), "int32": (32, True), "int64": (64, True), "int": (64, True),
    "uint8": (8, False), "uint16": (16, False), "uint32": (32, False), "uint64": (64, False), "uint": (64, False), "uintptr": (64, False),
}
ARITH = [("add", "+"), ("sub", "-"), ("mul", "*"), ("div", "/"), ("rem", "%"), ("and", "&"), ("or", "|"), ("xor", "^"), ("andnot", "&^")]
CMP = [("eq", "=="), ("ne", "!="), ("lt", "<"), ("le", "<="), ("gt", ">"), ("ge", ">=")]


def rng(t):
    b, s = INTS[t]
    return (-(1 << (b - 1)), (1 << (b - 1)) - 1) if s else (0, (1 << b) - 1)


def boundary(t):
    lo, hi = rng(t)
    vals = {0, 1, 2, 3, -1, -2, lo, lo + 1, hi, hi - 1, 10, -10, 100}
    for k in (7, 8, 15, 16, 24, 31, 32, 53, 62, 63):
        for d in (-1, 0, 1):
            vals.add((1 << k) + d)
            vals.add(-(1 << k) + d)
    # rounding witnesses for int -> float conversions: just above / below a float32 (24-bit) or float64 (53-bit) half-way point,
    # by an amount that an intermediate conversion through the other format would lose
    for k in (40, 60, 61, 62, 63):
        for half in (k - 24, k - 53):
            if half > 1:
                for d in (-1, 0, 1):
                    vals.add((1 << k) + (1 << half) + d)
                    vals.add(-((1 << k) + (1 << half) + d))
                    vals.add((1 << k) + 3 * (1 << half) + d)
    return sorted(v for v in vals if lo <= v <= hi)


def lit(t, v):
    """Go expression of type t with value v (never an untyped constant overflow)."""
    lo, hi = rng(t)
    assert lo <= v <= hi
    if v == lo and lo < 0:
        return "%s(%d-1)" % (t, v + 1)
    return "%s(%d)" % (t, v)


def show(t, expr):
    return ("itoa(int64(%s))" if INTS[t][1] else "utoa(uint64(%s))") % expr


class G:
    def __init__(self):
        self.decls, self.inits = [], []

    def source(self):
        return PRELUDE + "\nvar cases []func()\n\n" + "\n".join(self.decls) + "\nfunc main() {\n" + "\n".join(self.inits) + "\n\trunAll(cases)\n}\n"


def table(g, name, t, vals):
    g.decls.append("var %s = []%s{%s}" % (name, t, ", ".join(lit(t, v) for v in vals)))


def gen_bin_rows(g, t, avals_name, bvals_name, ops, tag):
    """vv form: one case per (op, a), a row over all b."""
    for opn, op in ops:
        f = "%s_%s" % (opn, t)
        rt = "bool" if (opn, op) in CMP else t
        g.decls.append("//go:noinline\nfunc %s(a, b %s) %s { return a %s b }" % (f, t, rt, op))
        shw = "btoa(%s(a, b))" % f if rt == "bool" else show(t, "%s(a, b)" % f)
        if opn in ("div", "rem"):
            body = """
func row_%(f)s_%(tag)s(ai int) {
	a := %(av)s[ai]
	id := "%(f)s/%(tag)s/a=" + %(sa)s
	defer func() {
		if r := recover(); r != nil {
			emit(id, "UNEXPECTED-PANIC")
		}
	}()
	s := make([]byte, 0, 2048)
	for _, b := range %(bv)s {
		if b == 0 {
			s = append(s, zero_%(f)s(a)...)
		} else {
			s = append(s, %(shw)s...)
		}
		s = append(s, ' ')
	}
	emit(id, string(s))
}
func zero_%(f)s(a %(t)s) (res string) {
	defer func() {
		if recover() != nil {
			res = "P"
		}
	}()
	var z %(t)s
	return "NOPANIC:" + %(shz)s
}""" % dict(f=f, tag=tag, av=avals_name, bv=bvals_name, sa=show(t, "a"), shw=shw, t=t, shz=show(t, "%s(a, z)" % f))
            if ("func zero_" + f + "(") in "".join(g.decls):
                body = body[:body.index("func zero_")]
        else:
            body = """
func row_%(f)s_%(tag)s(ai int) {
	a := %(av)s[ai]
	id := "%(f)s/%(tag)s/a=" + %(sa)s
	defer func() {
		if r := recover(); r != nil {
			emit(id, "UNEXPECTED-PANIC")
		}
	}()
	s := make([]byte, 0, 2048)
	for _, b := range %(bv)s {
		s = append(s, %(shw)s...)
		s = append(s, ' ')
	}
	emit(id, string(s))
}""" % dict(f=f, tag=tag, av=avals_name, bv=bvals_name, sa=show(t, "a"), shw=shw)
        g.decls.append(body)
        g.inits.append("\tfor i := range %s {\n\t\ti := i\n\t\tcases = append(cases, func() { row_%s_%s(i) })\n\t}" % (avals_name, f, tag))


def gen_const_forms(g, t, consts, vals_name, ops):
    """var op const and const op var: one function per constant, one case per (op, const, side) over all values."""
    for opn, op in ops:
        rt = "bool" if (opn, op) in CMP else t
        for c in consts:
            for side in ("vc", "cv"):
                if opn in ("div", "rem") and c == 0 and side == "vc":
                    continue  # constant zero divisor is a compile error
                cn = ("m%d" % -c) if c < 0 else str(c)
                f = "%s_%s_%s_%s" % (opn, t, side, cn)
                cl = lit(t, c)
                expr = "a %s %s" % (op, cl) if side == "vc" else "%s %s a" % (cl, op)
                g.decls.append("//go:noinline\nfunc %s(a %s) %s { return %s }" % (f, t, rt, expr))
                shw = "btoa(%s(a))" % f if rt == "bool" else show(t, "%s(a)" % f)
                zero = ""
                if opn in ("div", "rem") and side == "cv":
                    zero = "\t\tif a == 0 {\n\t\t\ts = append(s, zc_%s()...)\n\t\t\ts = append(s, ' ')\n\t\t\tcontinue\n\t\t}\n" % f
                    g.decls.append("func zc_%s() (res string) {\n\tdefer func() {\n\t\tif recover() != nil {\n\t\t\tres = \"P\"\n\t\t}\n\t}()\n\tvar z %s\n\treturn \"NOPANIC:\" + %s\n}" % (f, t, show(t, "%s(z)" % f) if rt != "bool" else "btoa(%s(z))" % f))
                g.decls.append("""
func case_%(f)s() {
	id := "%(f)s"
	defer func() {
		if r := recover(); r != nil {
			emit(id, "UNEXPECTED-PANIC")
		}
	}()
	s := make([]byte, 0, 2048)
	for _, a := range %(vn)s {
%(zero)s		s = append(s, %(shw)s...)
		s = append(s, ' ')
	}
	emit(id, string(s))
}""" % dict(f=f, vn=vals_name, shw=shw, zero=zero))
                g.inits.append("\tcases = append(cases, case_%s)" % f)


def gen_unary_conv_rows(g, t, vals_name, chunk, targets):
    """unary ops and conversions of every value in vals (rows of `chunk`)."""
    fs = []
    for opn, op in (("neg", "-"), ("com", "^")):
        f = "%s_%s" % (opn, t)
        g.decls.append("//go:noinline\nfunc %s(a %s) %s { return %sa }" % (f, t, t, op))
        fs.append((f, show(t, "%s(a)" % f)))
    for tt in targets:
        f = "cv_%s_%s" % (t, tt)
        g.decls.append("//go:noinline\nfunc %s(a %s) %s { return %s(a) }" % (f, t, tt, tt))
        if tt in INTS:
            fs.append((f, show(tt, "%s(a)" % f)))
        elif tt == "float32":
            fs.append((f, "f32bits(%s(a))" % f))
        else:
            fs.append((f, "f64bits(%s(a))" % f))
    for f, shw in fs:
        g.decls.append("""
func row_%(f)s(start int) {
	id := "%(f)s/from=" + itoa(int64(start))
	s := make([]byte, 0, 4096)
	for i := start; i < start+%(chunk)d && i < len(%(vn)s); i++ {
		a := %(vn)s[i]
		s = append(s, %(shw)s...)
		s = append(s, ' ')
	}
	emit(id, string(s))
}""" % dict(f=f, vn=vals_name, shw=shw, chunk=chunk))
        g.inits.append("\tfor st := 0; st < len(%s); st += %d {\n\t\tst := st\n\t\tcases = append(cases, func() { row_%s(st) })\n\t}" % (vals_name, chunk, f))


def prog_8bit():
    g = G()
    for t in ("int8", "uint8"):
        lo, hi = rng(t)
        g.decls.append("var all_%s = func() []%s {\n\tvar r []%s\n\tfor i := %d; i <= %d; i++ {\n\t\tr = append(r, %s(i))\n\t}\n\treturn r\n}()" % (t, t, t, lo, hi, t))
        gen_bin_rows(g, t, "all_" + t, "all_" + t, ARITH + CMP, "all")
        gen_unary_conv_rows(g, t, "all_" + t, 256, list(INTS) + ["float32", "float64"])
        consts = [c for c in (0, 1, 2, 7, 8, -1, -2, lo, hi, hi - 1, 100) if lo <= c <= hi]
        gen_const_forms(g, t, sorted(set(consts)), "all_" + t, ARITH + CMP)
    return g.source()


def prog_16bit():
    g = G()
    for t in ("int16", "uint16"):
        lo, hi = rng(t)
        g.decls.append("var all_%s = func() []%s {\n\tvar r []%s\n\tfor i := %d; i <= %d; i++ {\n\t\tr = append(r, %s(i))\n\t}\n\treturn r\n}()" % (t, t, t, lo, hi, t))
        gen_unary_conv_rows(g, t, "all_" + t, 1024, list(INTS) + ["float32", "float64"])
        table(g, "b_" + t, t, boundary(t))
        gen_bin_rows(g, t, "b_" + t, "b_" + t, ARITH + CMP, "b")
        gen_const_forms(g, t, [c for c in (1, -1, 2, lo, hi, 255, 256) if lo <= c <= hi], "b_" + t, ARITH + CMP)
    return g.source()


def prog_wide(types, with_const=True):
    g = G()
    for t in types:
        lo, hi = rng(t)
        table(g, "b_" + t, t, boundary(t))
        gen_bin_rows(g, t, "b_" + t, "b_" + t, ARITH + CMP, "b")
        gen_unary_conv_rows(g, t, "b_" + t, 256, [])
        if with_const:
            gen_const_forms(g, t, [c for c in (1, -1, 2, 3, lo, hi, 1 << 31, (1 << 32) + 1, 10) if lo <= c <= hi], "b_" + t, ARITH + CMP)
    return g.source()


SHIFT_COUNTS = [0, 1, 2, 3, 4, 5, 6, 7, 8, 9, 15, 16, 17, 31, 32, 33, 63, 64, 65, 127, 128, 255, 256, 257, 65535, 65536, 1 << 32, (1 << 32) + 1, (1 << 63) - 1, 1 << 63, (1 << 64) - 1,
                -1, -2, -128, -(1 << 15), -(1 << 31), -(1 << 63)]


def prog_shifts(optypes, cttypes, name):
    g = G()
    for t in optypes:
        lo, hi = rng(t)
        ovals = sorted(set(v for v in (0, 1, 2, 3, -1, lo, hi, 0x55, -0x56, hi >> 1) if lo <= v <= hi))
        table(g, "sv_" + t, t, ovals)
        for ct in cttypes:
            clo, chi = rng(ct)
            cvals = [c for c in SHIFT_COUNTS if clo <= c <= chi]
            table(g, "sc_%s_%s" % (t, ct), ct, cvals)
            for opn, op in (("shl", "<<"), ("shr", ">>")):
                f = "%s_%s_%s" % (opn, t, ct)
                g.decls.append("//go:noinline\nfunc %s(a %s, c %s) %s { return a %s c }" % (f, t, ct, t, op))
                g.decls.append("""
func ev_%(f)s(a %(t)s, c %(ct)s) (res string) {
	defer func() {
		if recover() != nil {
			res = "P"
		}
	}()
	return %(shw)s
}
func row_%(f)s(ai int) {
	a := sv_%(t)s[ai]
	s := make([]byte, 0, 1024)
	for _, c := range sc_%(t)s_%(ct)s {
		s = append(s, ev_%(f)s(a, c)...)
		s = append(s, ' ')
	}
	emit("%(f)s/a=" + %(sa)s, string(s))
}""" % dict(f=f, t=t, ct=ct, shw=show(t, "%s(a, c)" % f), sa=show(t, "a")))
                g.inits.append("\tfor i := range sv_%s {\n\t\ti := i\n\t\tcases = append(cases, func() { row_%s(i) })\n\t}" % (t, f))
        # constant counts (var operand) and constant operand (var count of type uint8 / int64 / uint64)
        for opn, op in (("shl", "<<"), ("shr", ">>")):
            for c in (0, 1, 7, 8, 9, 15, 16, 17, 31, 32, 33, 63, 64, 65, 256, 1 << 32):
                f = "%s_%s_k%d" % (opn, t, c)
                g.decls.append("//go:noinline\nfunc %s(a %s) %s { return a %s %d }" % (f, t, t, op, c))
                g.decls.append("func case_%s() {\n\ts := make([]byte, 0, 512)\n\tfor _, a := range sv_%s {\n\t\ts = append(s, %s...)\n\t\ts = append(s, ' ')\n\t}\n\temit(\"%s\", string(s))\n}" % (f, t, show(t, "%s(a)" % f), f))
                g.inits.append("\tcases = append(cases, case_%s)" % f)
    return g.source()


def prog_intconv():
    g = G()
    for s in INTS:
        table(g, "b_" + s, s, boundary(s))
        gen_unary_conv_rows(g, s, "b_" + s, 256, [t for t in INTS if t != s] + ["float32", "float64"])
        # drop the unary functions generated by gen_unary_conv_rows? they are harmless duplicates of prog_wide
    # float -> int (only values representable in the target: the spec leaves the rest implementation-defined)
    fvals = [0.0, -0.0, 1.0, -1.0, 1.5, -1.5, 0.999, -0.999, 2.5, 127.0, 127.9, -128.0, -128.9, 255.0, 255.9, 32767.5, -32768.5, 65535.9,
             2147483647.0, -2147483648.0, 4294967295.0, 9007199254740992.0, -9007199254740992.0, 4611686018427387904.0, -9223372036854775808.0, 9223372036854774784.0, 18446744073709549568.0, 1e18]
    for ft in ("float64", "float32"):
        for t in INTS:
            lo, hi = rng(t)
            import struct
            vals = []
            for v in fvals:
                vv = struct.unpack("f", struct.pack("f", v))[0] if ft == "float32" else v
                tr = int(vv)
                if lo <= tr <= hi and abs(vv) < 2.0 ** 64:
                    vals.append(repr(vv))
            f = "cv_%s_%s" % (ft, t)
            g.decls.append("var fv_%s = []%s{%s}" % (f, ft, ", ".join("%s(%s)" % (ft, v) for v in vals)))
            g.decls.append("//go:noinline\nfunc %s(a %s) %s { return %s(a) }" % (f, ft, t, t))
            g.decls.append("func case_%s() {\n\ts := make([]byte, 0, 512)\n\tfor _, a := range fv_%s {\n\t\ts = append(s, %s...)\n\t\ts = append(s, ' ')\n\t}\n\temit(\"%s\", string(s))\n}" % (f, f, show(t, "%s(a)" % f), f))
            g.inits.append("\tcases = append(cases, case_%s)" % f)
    return g.source()


FLOATS64 = ["0.0", "negzero", "1.0", "-1.0", "0.5", "-0.5", "1.5", "-1.5", "3.0", "0.1", "16777215.0", "16777216.0", "16777217.0", "9007199254740991.0", "9007199254740992.0", "9007199254740993.0",
            "2147483648.0", "9223372036854775808.0", "5e-324", "-5e-324", "2.2250738585072014e-308", "1.7976931348623157e308", "-1.7976931348623157e308", "inf", "-inf", "nan", "1e-10", "123456.789"]
FLOATS32 = ["0.0", "negzero", "1.0", "-1.0", "0.5", "1.5", "-1.5", "3.0", "0.1", "16777215.0", "16777216.0", "16777218.0", "2147483648.0", "1e-45", "1.1754944e-38", "3.4028235e38", "-3.4028235e38", "inf", "-inf", "nan", "1e-10", "123456.79"]


def prog_float():
    g = G()
    g.decls.append("var fzero float64\nvar negzero = -fzero\nvar inf = 1 / fzero\nvar nanbits uint64 = 0x7FF8000000000001 // math.NaN(): sign bit clear (the sign of a NaN is not specified behaviour)\nvar nan = *(*float64)(unsafe.Pointer(&nanbits))\nvar fzero32 float32\nvar negzero32 = -fzero32\nvar inf32 = 1 / fzero32\nvar nanbits32 uint32 = 0x7FC00000\nvar nan32 = *(*float32)(unsafe.Pointer(&nanbits32))")
    g.decls.append("func sf64(f float64) string {\n\tif f != f {\n\t\treturn \"NaN\"\n\t}\n\treturn f64bits(f)\n}\nfunc sf32(f float32) string {\n\tif f != f {\n\t\treturn \"NaN\"\n\t}\n\treturn f32bits(f)\n}")
    for ft, vals, sfx, sh in (("float64", FLOATS64, "", "sf64"), ("float32", FLOATS32, "32", "sf32")):
        def lit_f(v):
            if v in ("negzero", "inf", "nan"):
                return v + sfx
            if v == "-inf":
                return "-inf" + sfx
            return "%s(%s)" % (ft, v)
        g.decls.append("var fv_%s = []%s{%s}" % (ft, ft, ", ".join(lit_f(v) for v in vals)))
        for opn, op in [("add", "+"), ("sub", "-"), ("mul", "*"), ("div", "/")] + CMP:
            f = "%s_%s" % (opn, ft)
            rt = "bool" if (opn, op) in CMP else ft
            g.decls.append("//go:noinline\nfunc %s(a, b %s) %s { return a %s b }" % (f, ft, rt, op))
            shw = "btoa(%s(a, b))" % f if rt == "bool" else "%s(%s(a, b))" % (sh, f)
            g.decls.append("func row_%s(ai int) {\n\ta := fv_%s[ai]\n\ts := make([]byte, 0, 1024)\n\tfor _, b := range fv_%s {\n\t\ts = append(s, %s...)\n\t\ts = append(s, ' ')\n\t}\n\temit(\"%s/a#\"+itoa(int64(ai)), string(s))\n}" % (f, ft, ft, shw, f))
            g.inits.append("\tfor i := range fv_%s {\n\t\ti := i\n\t\tcases = append(cases, func() { row_%s(i) })\n\t}" % (ft, f))
        # unary minus, conversions between the float types and to/from ints of all values
        other = "float32" if ft == "float64" else "float64"
        osh = "sf32" if other == "float32" else "sf64"
        g.decls.append("//go:noinline\nfunc neg_%s(a %s) %s { return -a }\n//go:noinline\nfunc cvf_%s(a %s) %s { return %s(a) }" % (ft, ft, ft, ft, ft, other, other))
        g.decls.append("func case_un_%s() {\n\ts := make([]byte, 0, 1024)\n\tfor _, a := range fv_%s {\n\t\ts = append(s, %s(neg_%s(a))...)\n\t\ts = append(s, ' ')\n\t\ts = append(s, %s(cvf_%s(a))...)\n\t\ts = append(s, ' ')\n\t}\n\temit(\"unary_%s\", string(s))\n}" % (ft, ft, sh, ft, osh, ft, ft))
        g.inits.append("\tcases = append(cases, case_un_%s)" % ft)
    # complex128 / complex64
    cparts = ["0.0", "negzero", "1.0", "-2.5", "inf", "-inf", "nan", "1e308", "5e-324"]
    g.decls.append("func cpart(i int) float64 {\n\treturn []float64{0.0, negzero, 1.0, -2.5, inf, -inf, nan, 1e308, 5e-324}[i]\n}")
    g.decls.append("func sc128(c complex128) string { return sf64(real(c)) + \",\" + sf64(imag(c)) }\nfunc sc64(c complex64) string { return sf32(real(c)) + \",\" + sf32(imag(c)) }")
    for ct, pt, sh in (("complex128", "float64", "sc128"), ("complex64", "float32", "sc64")):
        for opn, op in [("add", "+"), ("sub", "-"), ("mul", "*"), ("div", "/"), ("eq", "=="), ("ne", "!=")]:
            f = "%s_%s" % (opn, ct)
            rt = "bool" if opn in ("eq", "ne") else ct
            g.decls.append("//go:noinline\nfunc %s(a, b %s) %s { return a %s b }" % (f, ct, rt, op))
            shw = "btoa(%s(a, b))" % f if rt == "bool" else "%s(%s(a, b))" % (sh, f)
            g.decls.append("""
func row_%(f)s(ai int) {
	a := %(ct)s(complex(cpart(ai/%(n)d), cpart(ai%%%(n)d)))
	s := make([]byte, 0, 4096)
	for bi := 0; bi < %(n)d*%(n)d; bi++ {
		b := %(ct)s(complex(cpart(bi/%(n)d), cpart(bi%%%(n)d)))
		s = append(s, %(shw)s...)
		s = append(s, ' ')
	}
	emit("%(f)s/a#"+itoa(int64(ai)), string(s))
}""" % dict(f=f, ct=ct, n=len(cparts), shw=shw))
            g.inits.append("\tfor i := 0; i < %d; i++ {\n\t\ti := i\n\t\tcases = append(cases, func() { row_%s(i) })\n\t}" % (len(cparts) ** 2, f))
    return g.source()


def programs(tier):
    ps = {
        "bits8": prog_8bit(),
        "bits16": prog_16bit(),
        "wide_s": prog_wide(["int32", "int64", "int"]),
        "wide_u": prog_wide(["uint32", "uint64", "uint", "uintptr"]),
        "shift_a": prog_shifts(["int8", "uint8", "int16", "uint16"], list(INTS), "a"),
        "shift_b": prog_shifts(["int32", "uint32", "int64", "uint64", "int"], list(INTS), "b"),
        "intconv": prog_intconv(),
        "float": prog_float(),
    }
    return ps


if __name__ == "__main__":
    import os
    ps = programs("quick")
    for k, v in ps.items():
        print(k, len(v), v.count("\nfunc "))
    if len(sys.argv) > 1:
        os.makedirs(sys.argv[1], exist_ok=True)
        for k, v in ps.items():
            os.makedirs(os.path.join(sys.argv[1], k), exist_ok=True)
            open(os.path.join(sys.argv[1], k, "main.go"), "w").write(v)
            open(os.path.join(sys.argv[1], k, "go.mod"), "w").write("module vt\n\ngo 1.24\n")
