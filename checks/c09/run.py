#!/usr/bin/env python3
"""C09: every struct shape over {i8,i16,i32,i64,f32,f64,ptr} with 1-3 fields (thorough 4, plus larger shapes up to 96 bytes) crossing the Go/C boundary in
8 positions; both sides compute the same checksum of the field values; C side compiled by clang through llgo's LLGoFiles path."""
import argparse, json, os, re, sys
sys.path.insert(0, "/verif/lib"); sys.path.insert(0, os.path.dirname(os.path.abspath(__file__)))
from common import *
from diff import *
import gen

def classify(shape):
    """SysV x86-64 eightbyte classes of a struct shape (what the platform ABI does; used only to attribute known findings)."""
    size = {"b": 1, "h": 2, "w": 4, "q": 8, "f": 4, "d": 8, "p": 8}
    off, cls = 0, {}
    for t in shape:
        a = size[t]
        off = (off + a - 1) // a * a
        eb = off // 8
        c = "S" if t in "fd" else "I"
        cls[eb] = "I" if cls.get(eb, c) != c or c == "I" else "S"
        off += a
    total = (off + max(size[t] for t in shape) - 1) // max(size[t] for t in shape) * max(size[t] for t in shape)
    return total, [cls[k] for k in sorted(cls)]

def run_all(tier):
    backends = (("A", ()), ("C", ()))
    progs = gen.programs(tier)
    def one(item):
        name, files = item
        d = workdir("C09", name)
        src = os.path.join(d, "src")
        write_module(src, files)
        out = []
        for backend, tags in backends:
            exe = os.path.join(d, "llgo_%s.exe" % backend)
            try:
                build_llgo(src, exe, backend=backend, tags=tags)
            except BuildError as e:
                out.append((name, backend, None, str(e)[-2000:])); continue
            cases, order, crashes = run_batch(exe, timeout=300)
            out.append((name, backend, cases, crashes))
        return out
    return [r for rs in pmap(one, list(progs.items()), workers=4) for r in rs], progs

def findings(results, progs):
    """yield (key, what) for every (shape, position) whose checksum differs, and for crashes / build failures"""
    nshapes = npos = 0
    for name, backend, cases, extra in results:
        if cases is None:
            yield "build:%s:%s" % (name, backend), "llgo failed to build the program:\n" + extra; continue
        want = re.findall(r'emit\("([SX]_\w+)"', progs[name]["main.go"])
        for sh in want:
            nshapes += 1
            obs = cases.get(sh)
            if obs is None:
                yield "%s/crash" % sh, "[%s] the program died in the case of shape %s (crashes: %r)" % (backend, sh, extra[:1]); continue
            if obs.strip() == "ok":
                continue
            for m in re.finditer(r"(\S+?):(-?\d+)/(-?\d+)", obs):
                yield "%s/%s" % (sh, m.group(1)), "[%s] struct %s position %s: checksum seen by the receiver %s, expected %s" % (backend, sh, m.group(1), m.group(2), m.group(3))

if __name__ == "__main__":
    ap = argparse.ArgumentParser()
    ap.add_argument("--id", default="C09"); ap.add_argument("--tier", default=os.environ.get("VERIF_TIER", "quick")); ap.add_argument("--replay")
    a = ap.parse_args()
    rep = Report("C09", a.tier, "exploration")
    results, progs = run_all(a.tier)
    nshapes = len(gen.shapes(a.tier))
    for key, what in findings(results, progs):
        rep.violation(key, what, {"shape": key.split("/")[0]})
    rep.coverage.update(evaluations=nshapes * 8 * 2, distinct_nontrivial=nshapes, programs=len(progs), exhaustive=True, backends=["A", "C"],
        samples=["S_bd: struct{int8; float64} x {arg, after6ints, after8doubles, result, echo, cb-param, cb-result, cb-plainfunc}"],
        rule="shape = every sequence of 1-3 (thorough 4) fields over {int8,int16,int32,int64,float32,float64,pointer} plus homogeneous/alternating shapes of 5-12 fields; "
             "position = sole argument, after 6 integer arguments (integer registers exhausted), after 8 doubles (SSE registers exhausted), result, argument+result (echo), "
             "parameter and result of a C->Go callback (func literal and named func). Each field carries a distinct, mostly negative sentinel; receiver-side checksum must equal "
             "the sender's. evaluations = shape x position x back end; non-trivial = shapes")
    rep.assumptions += ["C side compiled by clang 14 via LLGoFiles (the platform ABI as implemented by the host C compiler); amd64 only",
                        "callbacks are non-capturing function literals and named functions (a capturing closure cannot be a bare C function pointer)"]
    rep.finish()
