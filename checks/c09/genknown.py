#!/usr/bin/env python3
"""MANUAL tool: rewrites known/C09_*.txt: failing (shape, position) pairs attributed to the confirmed root cause; anything else is printed."""
import os, sys
sys.path.insert(0, "/verif/lib"); sys.path.insert(0, os.path.dirname(os.path.abspath(__file__)))
import run
mixed = set(); other = []
for tier in ("quick", "thorough"):
    results, progs = run.run_all(tier)
    for key, what in run.findings(results, progs):
        sh, pos = key.split("/") if not key.startswith("build") else (key, "")
        if key.startswith("build"):
            other.append((key, what[:300])); continue
        size, cls = run.classify(sh[2:])
        if size <= 16 and sorted(set(cls)) == ["I", "S"] and pos in ("after6ints", "after8doubles"):
            mixed.add(key)
        else:
            other.append((key, what[:300]))
    print(tier, len(mixed), len(other))
with open("/verif/known/C09_mixed_regs_exhausted.txt", "w") as f:
    for k in sorted(mixed): f.write(k + "\n")
for k, w in sorted(set(other))[:60]:
    print("UNATTRIBUTED", k, w)
