"""C09 generator: every struct shape with 1-3 (thorough 4) fields over {i8,i16,i32,i64,f32,f64,ptr} crosses the Go/C boundary as sole argument,
after 6 integer arguments, after 8 doubles, as result, and as parameter / result of a C->Go callback. Both sides compute the same checksum."""
import itertools, sys
sys.path.insert(0, "/verif/lib")
from prelude import PRELUDE

FT = {  # key: (Go type, C type, Go sentinel expr in (seed s, index j), C sentinel expr, Go->int64 expr of field value v, C->long long expr)
    "b": ("int8", "int8_t", "int8(-(s + j + 3))", "(int8_t)(-(s + j + 3))", "int64(v)", "(long long)v"),
    "h": ("int16", "int16_t", "int16(-1000 - s - j)", "(int16_t)(-1000 - s - j)", "int64(v)", "(long long)v"),
    "w": ("int32", "int32_t", "int32(-100000 - s*7 - j)", "(int32_t)(-100000 - s*7 - j)", "int64(v)", "(long long)v"),
    "q": ("int64", "int64_t", "int64(-(1<<40) - s*13 - j)", "(int64_t)(-(1LL<<40) - s*13 - j)", "int64(v)", "(long long)v"),
    "f": ("float32", "float", "float32(s+j) + 1.5", "(float)(s+j) + 1.5f", "int64(v * 4)", "(long long)(v * 4)"),
    "d": ("float64", "double", "-float64(s+j) - 2.25", "-(double)(s+j) - 2.25", "int64(v * 4)", "(long long)(v * 4)"),
    "p": ("unsafe.Pointer", "void*", "unsafe.Pointer(uintptr(0x1000 + (s+j)*8))", "(void*)(intptr_t)(0x1000 + (s+j)*8)", "int64(uintptr(v))", "(long long)(intptr_t)v"),
}


def shapes(tier):
    k = 4 if tier == "thorough" else 3
    out = []
    for n in range(1, k + 1):
        out += ["".join(c) for c in itertools.product("bhwqfdp", repeat=n)]
    # larger homogeneous / alternating shapes up to 80 bytes and small arrays as fields are covered by name suffixes
    for t in "bhwqfdp":
        for n in (5, 8, 9, 12):
            out.append(t * n)
    out += ["bq" * 3, "fd" * 4, "wf" * 5, "qd" * 5, "bfbfb", "dqdq", "ffff", "fffd", "ddf", "wwf", "fww", "qf", "fq", "bbbbbbbbq"]
    return sorted(set(out), key=lambda s: (len(s), s))


def flat_spec(sh):
    """(name, Go field declarations, C field declarations, leaves[(go path, c path, kind)])"""
    return ("S_" + sh, "\n".join("\tf%d %s" % (j, FT[t][0]) for j, t in enumerate(sh)), " ".join("%s f%d;" % (FT[t][1], j) for j, t in enumerate(sh)),
            [("f%d" % j, "f%d" % j, t) for j, t in enumerate(sh)])


NESTED = [
    ("X_vec2", "\tV struct{ X, Y float32 }", "struct { float X, Y; } V;", [("V.X", "V.X", "f"), ("V.Y", "V.Y", "f")]),
    ("X_arr2f", "\tA [2]float32", "float A[2];", [("A[0]", "A[0]", "f"), ("A[1]", "A[1]", "f")]),
    ("X_f_arr1f", "\tX float32\n\tY [1]float32", "float X; float Y[1];", [("X", "X", "f"), ("Y[0]", "Y[0]", "f")]),
    ("X_vec2_f", "\tV struct{ X, Y float32 }\n\tZ float32", "struct { float X, Y; } V; float Z;", [("V.X", "V.X", "f"), ("V.Y", "V.Y", "f"), ("Z", "Z", "f")]),
    ("X_arr2w", "\tA [2]int32", "int32_t A[2];", [("A[0]", "A[0]", "w"), ("A[1]", "A[1]", "w")]),
    ("X_arr3b_b", "\tA [3]int8\n\tB int8", "int8_t A[3]; int8_t B;", [("A[0]", "A[0]", "b"), ("A[2]", "A[2]", "b"), ("B", "B", "b")]),
    ("X_arr2d", "\tA [2]float64", "double A[2];", [("A[0]", "A[0]", "d"), ("A[1]", "A[1]", "d")]),
    ("X_arr4f", "\tA [4]float32", "float A[4];", [("A[0]", "A[0]", "f"), ("A[1]", "A[1]", "f"), ("A[2]", "A[2]", "f"), ("A[3]", "A[3]", "f")]),
    ("X_bw_d", "\tP struct {\n\t\tA int8\n\t\tB int32\n\t}\n\tQ float64", "struct { int8_t A; int32_t B; } P; double Q;", [("P.A", "P.A", "b"), ("P.B", "P.B", "w"), ("Q", "Q", "d")]),
    ("X_d_ff", "\tD float64\n\tP struct{ A, B float32 }", "double D; struct { float A, B; } P;", [("D", "D", "d"), ("P.A", "P.A", "f"), ("P.B", "P.B", "f")]),
    ("X_arr3q", "\tA [3]int64", "int64_t A[3];", [("A[0]", "A[0]", "q"), ("A[1]", "A[1]", "q"), ("A[2]", "A[2]", "q")]),
    ("X_q_d", "\tI struct{ A int64 }\n\tF struct{ B float64 }", "struct { int64_t A; } I; struct { double B; } F;", [("I.A", "I.A", "q"), ("F.B", "F.B", "d")]),
    ("X_b_in_b", "\tA int8\n\tS struct {\n\t\tB int8\n\t\tW int32\n\t}", "int8_t A; struct { int8_t B; int32_t W; } S;", [("A", "A", "b"), ("S.B", "S.B", "b"), ("S.W", "S.W", "w")]),
    ("X_arr2p_f", "\tP [2]unsafe.Pointer\n\tF float32", "void* P[2]; float F;", [("P[0]", "P[0]", "p"), ("P[1]", "P[1]", "p"), ("F", "F", "f")]),
]


def gen_program(specs, idx):
    c = ["#include <stdint.h>\n"]
    go_decl, go_main = [], []
    for n, gofields, cfields, leaves in specs:
        c.append("struct %s { %s };" % (n, cfields))
        c.append("static long long sum_%s(struct %s s) { long long h = 17; %s return h; }" % (
            n, n, " ".join("{ %s v = s.%s; h = h*31 + %s; }" % (FT[t][1], cp, FT[t][5]) for _, cp, t in leaves)))
        c.append("static struct %s mk_%s(int s) { struct %s r; %s return r; }" % (
            n, n, n, " ".join("{ int j = %d; r.%s = %s; }" % (j, cp, FT[t][3]) for j, (_, cp, t) in enumerate(leaves))))
        c.append("long long recv_%s(struct %s s) { return sum_%s(s); }" % (n, n, n))
        c.append("long long recvi_%s(long a0, long a1, long a2, long a3, long a4, long a5, struct %s s) { return sum_%s(s) * 7 + a0 + 2*a1 + 3*a2 + 4*a3 + 5*a4 + 6*a5; }" % (n, n, n))
        c.append("long long recvd_%s(double d0, double d1, double d2, double d3, double d4, double d5, double d6, double d7, struct %s s, int tail) { return sum_%s(s) * 7 + (long long)(d0 + 2*d1 + 3*d2 + 4*d3 + 5*d4 + 6*d5 + 7*d6 + 8*d7) + tail; }" % (n, n, n))
        c.append("struct %s make_%s(int seed) { return mk_%s(seed); }" % (n, n, n))
        c.append("struct %s echo_%s(struct %s s, int bump) { struct %s r = s; %s return r; }" % (
            n, n, n, n, " ".join(("r.%s = (void*)((intptr_t)s.%s + bump);" % (cp, cp)) if t == "p" else ("r.%s = (%s)(s.%s + bump);" % (cp, FT[t][1], cp)) for _, cp, t in leaves)))
        c.append("long long cbp_%s(long long (*f)(struct %s), int seed) { return f(mk_%s(seed)) + 1; }" % (n, n, n))
        c.append("long long cbr_%s(struct %s (*f)(int), int seed) { return sum_%s(f(seed)); }" % (n, n, n))
        # Go side
        go_decl.append("type %s struct {\n%s\n}" % (n, gofields))
        go_decl.append("func gsum_%s(s %s) int64 {\n\th := int64(17)\n%s\n\treturn h\n}" % (
            n, n, "\n".join("\t{\n\t\tv := s.%s\n\t\th = h*31 + %s\n\t}" % (gp, FT[t][4]) for gp, _, t in leaves)))
        go_decl.append("func gmk_%s(s int) (r %s) {\n%s\n\treturn\n}" % (
            n, n, "\n".join("\t{\n\t\tj := %d\n\t\t_ = j\n\t\tr.%s = %s\n\t}" % (j, gp, FT[t][2]) for j, (gp, _, t) in enumerate(leaves))))
        go_decl.append("//go:linkname recv_%(n)s C.recv_%(n)s\nfunc recv_%(n)s(s %(n)s) int64\n\n//go:linkname recvi_%(n)s C.recvi_%(n)s\nfunc recvi_%(n)s(a0, a1, a2, a3, a4, a5 int, s %(n)s) int64\n\n"
                       "//go:linkname recvd_%(n)s C.recvd_%(n)s\nfunc recvd_%(n)s(d0, d1, d2, d3, d4, d5, d6, d7 float64, s %(n)s, tail int32) int64\n\n"
                       "//go:linkname make_%(n)s C.make_%(n)s\nfunc make_%(n)s(seed int32) %(n)s\n\n//go:linkname echo_%(n)s C.echo_%(n)s\nfunc echo_%(n)s(s %(n)s, bump int32) %(n)s\n\n"
                       "//llgo:type C\ntype cbp_t_%(n)s func(%(n)s) int64\n\n//llgo:type C\ntype cbr_t_%(n)s func(int32) %(n)s\n\n"
                       "//go:linkname cbp_%(n)s C.cbp_%(n)s\nfunc cbp_%(n)s(f cbp_t_%(n)s, seed int32) int64\n\n//go:linkname cbr_%(n)s C.cbr_%(n)s\nfunc cbr_%(n)s(f cbr_t_%(n)s, seed int32) int64\n" % dict(n=n))
        go_decl.append("var glob_%s %s" % (n, n))
        bump_fields = " ".join("want.%s = %s;" % (gp, {"p": "unsafe.Pointer(uintptr(want.%s) + 3)" % gp}.get(t, "want.%s + 3" % gp)) for gp, _, t in leaves)
        first = leaves[0]
        go_main.append("""	cases = append(cases, func() {
		bad := ""
		s := gmk_%(n)s(5)
		if got, want := recv_%(n)s(s), gsum_%(n)s(s); got != want {
			bad += " arg:" + itoa(got) + "/" + itoa(want)
		}
		if got, want := recvi_%(n)s(11, 12, 13, 14, 15, 16, s), gsum_%(n)s(s)*7+11+2*12+3*13+4*14+5*15+6*16; got != want {
			bad += " after6ints:" + itoa(got) + "/" + itoa(want)
		}
		if got, want := recvd_%(n)s(1, 2, 3, 4, 5, 6, 7, 8, s, 9), gsum_%(n)s(s)*7+(1+4+9+16+25+36+49+64)+9; got != want {
			bad += " after8doubles:" + itoa(got) + "/" + itoa(want)
		}
		if got, want := gsum_%(n)s(make_%(n)s(9)), gsum_%(n)s(gmk_%(n)s(9)); got != want {
			bad += " result:" + itoa(got) + "/" + itoa(want)
		}
		want := s
		%(bump)s
		if got := echo_%(n)s(s, 3); got != want {
			bad += " echo:" + itoa(gsum_%(n)s(got)) + "/" + itoa(gsum_%(n)s(want))
		}
		{
			// the value is read through a pointer, the pointee changes, then the old value is passed
			// (no call between the read and the C call: everything else is computed beforehand)
			glob_%(n)s = gmk_%(n)s(5)
			p := &glob_%(n)s
			nv := gmk_%(n)s(7).%(first)s
			want := gsum_%(n)s(s)
			old := *p
			p.%(first)s = nv
			got := recv_%(n)s(old)
			if got != want {
				bad += " loadmut:" + itoa(got) + "/" + itoa(want)
			}
		}
		if got, want := cbp_%(n)s(func(a %(n)s) int64 { return gsum_%(n)s(a) + 1000 }, 4), gsum_%(n)s(gmk_%(n)s(4))+1000+1; got != want {
			bad += " cb-param:" + itoa(got) + "/" + itoa(want)
		}
		if got, want := cbr_%(n)s(func(seed int32) %(n)s { return gmk_%(n)s(int(seed)) }, 6), gsum_%(n)s(gmk_%(n)s(6)); got != want {
			bad += " cb-result:" + itoa(got) + "/" + itoa(want)
		}
		if got, want := cbp_%(n)s(plain_%(n)s, 2), gsum_%(n)s(gmk_%(n)s(2))+1; got != want {
			bad += " cb-plainfunc:" + itoa(got) + "/" + itoa(want)
		}
		if bad == "" {
			bad = " ok"
		}
		emit("%(n)s", bad)
	})""" % dict(n=n, bump=bump_fields, first=first[0]))
        go_decl.append("func plain_%s(a %s) int64 { return gsum_%s(a) }" % (n, n, n))
    src = PRELUDE + "\nconst LLGoFiles = \"wrap/wrap.c\"\n\nvar cases []func()\n\n" + "\n\n".join(go_decl) + "\n\nfunc main() {\n" + "\n".join(go_main) + "\n\trunAll(cases)\n}\n"
    return {"main.go": src, "wrap/wrap.c": "\n".join(c) + "\n"}


STR_PROG_C = r'''
#include <string.h>
#include <stdlib.h>
long cstr_sum(const char *s) { long h = 0; while (*s) { h = h*131 + (unsigned char)*s++; } return h; }
long buf_sum(const unsigned char *p, long n) { long h = 0; for (long i = 0; i < n; i++) h = h*131 + p[i] + 1; return h; }
void buf_fill(unsigned char *p, long n, int seed) { for (long i = 0; i < n; i++) p[i] = (unsigned char)(seed + i*7); }
const char *cstr_make(int k) { static char b[64]; int i; for (i = 0; i < k; i++) b[i] = (char)(0x80 + i); b[i] = 0; return b; }
'''


def programs(tier):
    shp = shapes(tier)
    per = 110
    ps = {}
    for pi in range(0, len(shp), per):
        ps["abi%02d" % (pi // per)] = gen_program([flat_spec(x) for x in shp[pi:pi + per]], pi // per)
    ps["abinest"] = gen_program([x for x in NESTED if x[0] != "X_b_in_b"], 99)
    # struct{int8; struct{int8; int32}}: llgo emits the invalid type { i64, i0 } for it (known finding); kept apart so the other shapes still build
    ps["abibad"] = gen_program([x for x in NESTED if x[0] == "X_b_in_b"], 98)
    return ps


if __name__ == "__main__":
    import os
    ps = programs(sys.argv[2] if len(sys.argv) > 2 else "quick")
    print(len(shapes("quick")), len(ps))
    for k, files in ps.items():
        d = os.path.join(sys.argv[1], k)
        for rel, txt in files.items():
            os.makedirs(os.path.dirname(os.path.join(d, rel)), exist_ok=True)
            open(os.path.join(d, rel), "w").write(txt)
        open(os.path.join(d, "go.mod"), "w").write("module vt\n\ngo 1.24\n")
