"""C05 generator.
slices: all operation sequences up to depth k from a family of start states on the real slices, in lock-step with a reference
model (backing arrays + (array, offset, len, cap) descriptors) that is parametric in the capacity chosen on growth.
strings: all byte strings over an alphabet of valid/invalid UTF-8 pieces through every string operation."""
import sys
sys.path.insert(0, "/verif/lib")
from prelude import PRELUDE

# element types: name -> (Go type, constructor from int, extractor to int, zero-size?)
ELEMS = {
    "z0": ("struct{}", "struct{}{}", "0", True),
    "b1": ("uint8", "uint8(v)", "int(e)", False),
    "h2": ("uint16", "uint16(v)", "int(e)", False),
    "t3": ("[3]byte", "[3]byte{byte(v), byte(v + 1), byte(v + 2)}", "int(e[0])", False),
    "w8": ("int64", "int64(v)", "int(e)", False),
    "s24": ("[3]int64", "[3]int64{int64(v), int64(v) * 3, -int64(v)}", "int(e[0])", False),
    "str": ("string", "strs[v&255]", "strun(e)", False),
}

SLICE_TMPL = r'''
type E = %(gotype)s

const zeroSize = %(zs)s

var strs [256]string

func init() {
	for i := range strs {
		strs[i] = string([]byte{byte(i), 'x'})
	}
	strs[0] = "" // mk(0) is the zero value, as for the other element types
}

func strun(e string) int {
	if len(e) == 0 {
		return 0
	}
	return int(e[0])
}

func mk(v int) E { return %(mk)s }
func un(e E) int {
	if zeroSize {
		return 0
	}
	return %(un)s
}

// ---- reference model: backing arrays and descriptors, no append/copy used
type mslice struct {
	arr           int // index into marrs, -1 = nil slice
	off, len, cap int
}

var marrs [][]int

func mnew(c int) int {
	marrs = append(marrs, make([]int, c)) // bookkeeping of the model only
	return len(marrs) - 1
}

type state struct {
	r [2][]E     // the real slices a, b
	m [2]mslice  // the model
}

var fail string

func failf(s string) {
	if fail == "" {
		fail = s
	}
}

func (st *state) check(where string) {
	for x := 0; x < 2; x++ {
		r, m := st.r[x], st.m[x]
		if (r == nil) != (m.arr < 0) {
			failf(where + ": nil-ness of " + vn(x))
			return
		}
		if len(r) != m.len {
			failf(where + ": len(" + vn(x) + ")=" + itoa(int64(len(r))) + " model " + itoa(int64(m.len)))
			return
		}
		if cap(r) < len(r) {
			failf(where + ": cap<len")
			return
		}
		if m.arr >= 0 && cap(r) != m.cap {
			failf(where + ": cap(" + vn(x) + ")=" + itoa(int64(cap(r))) + " model " + itoa(int64(m.cap)))
			return
		}
		if !zeroSize {
			for i := 0; i < m.len; i++ {
				if un(r[i]) != un(mk(marrs[m.arr][m.off+i])) {
					failf(where + ": " + vn(x) + "[" + itoa(int64(i)) + "]=" + itoa(int64(un(r[i]))) + " model " + itoa(int64(un(mk(marrs[m.arr][m.off+i])))))
					return
				}
			}
		}
	}
}

func vn(x int) string { return string([]byte{byte('a' + x)}) }

// grow: the model adopts the capacity the implementation chose, provided it is large enough and the storage is fresh
func (st *state) adoptGrow(dst int, res []E, need int, old mslice, where string) mslice {
	if cap(res) < need {
		failf(where + ": grown capacity " + itoa(int64(cap(res))) + " < needed " + itoa(int64(need)))
	}
	a := mnew(cap(res))
	for i := 0; i < old.len; i++ {
		marrs[a][i] = marrs[old.arr][old.off+i]
	}
	return mslice{a, 0, old.len, cap(res)}
}

// mappend: append the values vs (already read) to model slice s; res is the real result
func (st *state) mappend(s mslice, vs []int, res []E, where string) mslice {
	if s.arr < 0 {
		s = mslice{mnew(0), 0, 0, 0}
		if len(vs) == 0 {
			return mslice{-1, 0, 0, 0}
		}
	}
	need := s.len + len(vs)
	if need > s.cap {
		s = st.adoptGrow(0, res, need, s, where)
	}
	for i, v := range vs {
		marrs[s.arr][s.off+s.len+i] = v
	}
	s.len = need
	return s
}

func (st *state) vals(s mslice, i, j int) []int {
	out := make([]int, j-i)
	for k := i; k < j; k++ {
		out[k-i] = marrs[s.arr][s.off+k]
	}
	return out
}

const nOps = 24

var opNames = [nOps]string{"a=append(a,v)", "b=append(a,v)", "a=append(a,a...)", "a=append(a,a[1:]...)", "b=append(a[:1],a[2:]...)", "a=append(a[:1],b...)",
	"copy(a,a[1:])", "copy(a[1:],a)", "copy(a,b)", "copy(b,a)", "a=a[1:]", "a=a[:len-1]", "a=a[:cap]", "a=a[0:1:2]", "b=a[1:]", "clear(a)", "a[0]=v", "b[0]=v", "b=a",
	"a=make(2,5)", "b=append(b,v)", "a=append(a,v,v,v)", "b=a[len:]", "a=append(a[:0],a[1:]...)"}

// step applies operation op (value v); returns false when the operation is not applicable in this state (it would panic)
func (st *state) step(op int, v int) bool {
	a, b := st.r[0], st.r[1]
	ma, mb := st.m[0], st.m[1]
	w := opNames[op]
	switch op {
	case 0:
		st.r[0] = append(a, mk(v))
		st.m[0] = st.mappend(ma, []int{v}, st.r[0], w)
	case 1:
		st.r[1] = append(a, mk(v))
		st.m[1] = st.mappend(ma, []int{v}, st.r[1], w)
	case 2:
		var vs []int
		if ma.arr >= 0 {
			vs = st.vals(ma, 0, ma.len)
		}
		st.r[0] = append(a, a...)
		st.m[0] = st.mappend(ma, vs, st.r[0], w)
	case 3:
		if ma.len < 1 {
			return false
		}
		vs := st.vals(ma, 1, ma.len)
		st.r[0] = append(a, a[1:]...)
		st.m[0] = st.mappend(ma, vs, st.r[0], w)
	case 4:
		if ma.len < 2 {
			return false
		}
		vs := st.vals(ma, 2, ma.len)
		st.r[1] = append(a[:1], a[2:]...)
		st.m[1] = st.mappend(mslice{ma.arr, ma.off, 1, ma.cap}, vs, st.r[1], w)
	case 5:
		if ma.len < 1 {
			return false
		}
		var vs []int
		if mb.arr >= 0 {
			vs = st.vals(mb, 0, mb.len)
		}
		st.r[0] = append(a[:1], b...)
		st.m[0] = st.mappend(mslice{ma.arr, ma.off, 1, ma.cap}, vs, st.r[0], w)
	case 6, 7, 8, 9:
		var dst, src mslice
		var n int
		switch op {
		case 6:
			if ma.len < 1 {
				return false
			}
			dst, src = ma, mslice{ma.arr, ma.off + 1, ma.len - 1, 0}
			n = copy(a, a[1:])
		case 7:
			if ma.len < 1 {
				return false
			}
			dst, src = mslice{ma.arr, ma.off + 1, ma.len - 1, 0}, ma
			n = copy(a[1:], a)
		case 8:
			dst, src = ma, mb
			n = copy(a, b)
		case 9:
			dst, src = mb, ma
			n = copy(b, a)
		}
		want := dst.len
		if src.len < want {
			want = src.len
		}
		if dst.arr < 0 || src.arr < 0 {
			want = 0
		}
		if n != want {
			failf(w + ": copied " + itoa(int64(n)) + " want " + itoa(int64(want)))
		}
		if want > 0 {
			vs := st.vals(src, 0, want)
			for i, x := range vs {
				marrs[dst.arr][dst.off+i] = x
			}
		}
	case 10:
		if ma.len < 1 {
			return false
		}
		st.r[0] = a[1:]
		st.m[0] = mslice{ma.arr, ma.off + 1, ma.len - 1, ma.cap - 1}
	case 11:
		if ma.len < 1 {
			return false
		}
		st.r[0] = a[:len(a)-1]
		st.m[0] = mslice{ma.arr, ma.off, ma.len - 1, ma.cap}
	case 12:
		if ma.arr < 0 {
			return false
		}
		st.r[0] = a[:cap(a)]
		st.m[0] = mslice{ma.arr, ma.off, ma.cap, ma.cap}
	case 13:
		if ma.cap < 2 {
			return false
		}
		st.r[0] = a[0:1:2]
		st.m[0] = mslice{ma.arr, ma.off, 1, 2}
	case 14:
		if ma.len < 1 {
			return false
		}
		st.r[1] = a[1:]
		st.m[1] = mslice{ma.arr, ma.off + 1, ma.len - 1, ma.cap - 1}
	case 15:
		clear(a)
		for i := 0; i < ma.len; i++ {
			marrs[ma.arr][ma.off+i] = 0
		}
		if !zeroSize && !isZeroElems(a) {
			failf(w + ": elements not zero")
		}
	case 16:
		if ma.len < 1 {
			return false
		}
		a[0] = mk(v)
		marrs[ma.arr][ma.off] = v
	case 17:
		if mb.len < 1 {
			return false
		}
		b[0] = mk(v)
		marrs[mb.arr][mb.off] = v
	case 18:
		st.r[1] = a
		st.m[1] = ma
	case 19:
		st.r[0] = make([]E, 2, 5)
		st.m[0] = mslice{mnew(5), 0, 2, 5}
	case 20:
		st.r[1] = append(b, mk(v))
		st.m[1] = st.mappend(mb, []int{v}, st.r[1], w)
	case 21:
		st.r[0] = append(a, mk(v), mk(v+1), mk(v+2))
		st.m[0] = st.mappend(ma, []int{v, v + 1, v + 2}, st.r[0], w)
	case 22:
		if ma.arr < 0 {
			return false
		}
		st.r[1] = a[len(a):]
		st.m[1] = mslice{ma.arr, ma.off + ma.len, 0, ma.cap - ma.len}
	case 23:
		if ma.len < 1 {
			return false
		}
		vs := st.vals(ma, 1, ma.len)
		st.r[0] = append(a[:0], a[1:]...)
		st.m[0] = st.mappend(mslice{ma.arr, ma.off, 0, ma.cap}, vs, st.r[0], w)
	}
	st.check(w)
	return true
}

func isZeroElems(s []E) bool {
	var z E
	for _, e := range s {
		if e != z {
			return false
		}
	}
	return true
}

// aliasing probe at the end of a sequence: write through every variable's first and last element and compare everything
func (st *state) probe() {
	if zeroSize {
		return
	}
	for x := 0; x < 2; x++ {
		m := st.m[x]
		if m.len == 0 {
			continue
		}
		for _, p := range [2]int{0, m.len - 1} {
			st.r[x][p] = mk(200 + x*10 + p%%7)
			marrs[m.arr][m.off+p] = 200 + x*10 + p%%7
			st.check("alias probe through " + vn(x))
		}
	}
}

func start(l, c int, nilslice bool) *state {
	marrs = marrs[:0]
	st := &state{}
	st.m[1] = mslice{-1, 0, 0, 0}
	if nilslice {
		st.m[0] = mslice{-1, 0, 0, 0}
		return st
	}
	st.r[0] = make([]E, l, c)
	id := mnew(c)
	for i := 0; i < l; i++ {
		st.r[0][i] = mk(i + 1)
		marrs[id][i] = i + 1
	}
	st.m[0] = mslice{id, 0, l, c}
	return st
}

type startT struct {
	l, c  int
	nils  bool
	depth int
}

func summary(st *state) string {
	s := ""
	for x := 0; x < 2; x++ {
		h := 0
		for _, e := range st.r[x] {
			h = (h*31 + un(e)) & 0xffffff
		}
		s += itoa(int64(len(st.r[x]))) + ":" + itoa(int64(h)) + " "
	}
	return s
}

func main() {
	starts := []startT{%(starts)s}
	for _, sp := range starts {
		sp := sp
		// one case per (start, first op): all completions to the start's depth
		for op0 := 0; op0 < nOps; op0++ {
			op0 := op0
			cases = append(cases, func() {
				fail = ""
				n, applicable := 0, 0
				sumh := 0
				var seq [8]int
				var rec func(d int)
				run := func(d int) {
					st := start(sp.l, sp.c, sp.nils)
					ok := true
					for i := 0; i < d && ok; i++ {
						ok = st.step(seq[i], 7+i*16)
					}
					n++
					if ok {
						applicable++
						st.probe()
						for _, ch := range summary(st) {
							sumh = (sumh*131 + int(ch)) & 0xffffff
						}
						if fail != "" {
							f := fail + " after"
							for i := 0; i < d; i++ {
								f += " [" + opNames[seq[i]] + "]"
							}
							fail = f
							return
						}
					}
				}
				rec = func(d int) {
					if fail != "" {
						return
					}
					run(d)
					if d == sp.depth {
						return
					}
					for op := 0; op < nOps; op++ {
						seq[d] = op
						rec(d + 1)
					}
				}
				seq[0] = op0
				rec(1)
				res := "ok"
				if fail != "" {
					res = "FAIL " + fail
				}
				emit("%(name)s/start="+itoa(int64(sp.l))+","+itoa(int64(sp.c))+","+btoa(sp.nils)+"/"+opNames[op0], res+" seqs="+itoa(int64(n)))
				os.Stdout.WriteString("INFO applicable=" + itoa(int64(applicable)) + " sum=" + itoa(int64(sumh)) + "\n") // capacity-dependent, not compared
			})
		}
	}
	runAll(cases)
}
'''


def slice_prog(name, tier):
    gotype, mk, un, zs = ELEMS[name]
    d_small, d_big = (4, 2) if tier != "thorough" else (5, 3)
    starts = [(0, 0, True, d_small), (0, 0, False, d_small), (1, 1, False, d_small), (2, 4, False, d_small), (3, 3, False, d_small), (5, 8, False, d_small),
              (255, 255, False, d_big), (256, 256, False, d_big), (257, 300, False, d_big), (1023, 1023, False, d_big), (1024, 1024, False, d_big), (1025, 1025, False, d_big)]
    if name in ("s24", "str") and tier != "thorough":
        starts = starts[:9]
    st = ", ".join("{%d, %d, %s, %d}" % (l, c, "true" if n else "false", d) for l, c, n, d in starts)
    return PRELUDE + "\nvar cases []func()\n" + SLICE_TMPL % dict(gotype=gotype, mk=mk, un=un, zs="true" if zs else "false", starts=st, name=name)


SIGMA = [0x61, 0x00, 0x80, 0xC3, 0xA9, 0xE4, 0xED, 0xA0, 0xF0, 0xFF, 0xBF, 0xC0]

STRING_PROG = r'''
var cases []func()

var sigma = []byte{%(sigma)s}

func allStrings(maxLen int) []string {
	res := []string{""}
	prev := []string{""}
	for l := 1; l <= maxLen; l++ {
		var cur []string
		for _, p := range prev {
			for _, c := range sigma {
				cur = append(cur, p+string([]byte{c}))
			}
		}
		res = append(res, cur...)
		prev = cur
	}
	return res
}

func hex(s string) string {
	const d = "0123456789abcdef"
	b := make([]byte, 0, len(s)*2+1)
	for i := 0; i < len(s); i++ {
		b = append(b, d[s[i]>>4], d[s[i]&15])
	}
	if len(b) == 0 {
		return "-"
	}
	return string(b)
}

//go:noinline
func cat(a, b string) string { return a + b }

//go:noinline
func cat3(a, b, c string) string { return a + b + c }

//go:noinline
func sub(s string, i, j int) string { return s[i:j] }

func describe(s string) string {
	out := "len=" + itoa(int64(len(s))) + " range:"
	for i, r := range s {
		out += itoa(int64(i)) + "/" + itoa(int64(r)) + ","
	}
	rs := []rune(s)
	out += " runes=" + itoa(int64(len(rs))) + ":"
	for _, r := range rs {
		out += itoa(int64(r)) + ","
	}
	out += " back=" + hex(string(rs))
	bs := []byte(s)
	out += " bytes=" + hex(string(bs))
	if string(bs) != s {
		out += " BYTES-ROUNDTRIP-BROKEN"
	}
	n := 0
	for range s {
		n++
	}
	out += " n=" + itoa(int64(n)) + " idx:"
	for i := 0; i < len(s); i++ {
		out += itoa(int64(s[i])) + ","
	}
	out += " sub:"
	for i := 0; i <= len(s); i++ {
		for j := i; j <= len(s); j++ {
			out += hex(sub(s, i, j)) + ","
		}
	}
	// map key / comparison with a rebuilt copy
	cp := cat(sub(s, 0, len(s)/2), sub(s, len(s)/2, len(s)))
	out += " eqcopy=" + btoa(cp == s) + btoa(cp != s) + btoa(cp < s) + btoa(cp <= s)
	return out
}

func main() {
	all := allStrings(%(maxlen)d)
	for i := 0; i < len(all); i += 16 {
		i := i
		cases = append(cases, func() {
			for k := i; k < i+16 && k < len(all); k++ {
				emit("str/"+hex(all[k]), describe(all[k]))
			}
		})
	}
	short := allStrings(2)
	for i, a := range short {
		i, a := i, a
		cases = append(cases, func() {
			out := make([]byte, 0, 4096)
			for _, b := range short {
				out = append(out, btoa(a == b)[0], btoa(a != b)[0], btoa(a < b)[0], btoa(a <= b)[0], btoa(a > b)[0], btoa(a >= b)[0], ' ')
				c := cat(a, b)
				out = append(out, hex(c)...)
				out = append(out, ' ')
				out = append(out, hex(cat3(b, a, b))...)
				out = append(out, ' ')
			}
			emit("pair/"+itoa(int64(i))+"/"+hex(a), string(out))
		})
	}
	cases = append(cases, func() {
		out := ""
		for _, r := range []int64{-1, 0, 0x41, 0x7F, 0x80, 0x7FF, 0x800, 0xD7FF, 0xD800, 0xDFFF, 0xE000, 0xFFFD, 0xFFFF, 0x10000, 0x10FFFF, 0x110000, 0x7FFFFFFF, -0x80000000,
			0x100000041, -0x100000000 + 0x41, 1 << 32, 1<<62 + 0x41, -1 << 63} {
			out += hex(string(rune(r))) + "/" + hex(fromInt64(r)) + "/" + hex(fromUint64(uint64(r))) + "/" + hex(fromInt32(int32(r))) + "/" + hex(fromUint8(uint8(r))) + " "
		}
		emit("fromint", out)
	})
	cases = append(cases, func() {
		out := ""
		for _, rs := range [][]rune{nil, {}, {0x41}, {-1}, {0xD800, 0x41}, {0x10FFFF, 0x110000}, {0x7FFFFFFF}, {0, 0x80, 0x800, 0x10000}} {
			out += hex(string(rs)) + " "
		}
		emit("fromrunes", out)
	})
	runAll(cases)
}

//go:noinline
func fromInt64(v int64) string { return string(v) }

//go:noinline
func fromUint64(v uint64) string { return string(v) }

//go:noinline
func fromInt32(v int32) string { return string(v) }

//go:noinline
func fromUint8(v uint8) string { return string(v) }
'''


def string_prog(tier):
    return PRELUDE + STRING_PROG % dict(sigma=", ".join("0x%02X" % b for b in SIGMA), maxlen=4 if tier == "thorough" else 3)


def programs(tier):
    ps = {}
    for name in ELEMS:
        ps["slice_" + name] = slice_prog(name, tier)
    ps["strings"] = string_prog(tier)
    return ps


if __name__ == "__main__":
    import os
    for k, v in programs(sys.argv[2] if len(sys.argv) > 2 else "quick").items():
        d = os.path.join(sys.argv[1], k)
        os.makedirs(d, exist_ok=True)
        open(os.path.join(d, "main.go"), "w").write(v)
        open(os.path.join(d, "go.mod"), "w").write("module vt\n\ngo 1.24\n")
        print(k, len(v))
