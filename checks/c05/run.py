#!/usr/bin/env python3
"""C05: slices - all operation sequences from a family of start states, real slices in lock-step with a reference model;
strings - all byte strings over an alphabet of valid/invalid UTF-8 pieces through every string operation, vs go1.24.0."""
import os, sys
sys.path.insert(0, "/verif/lib"); sys.path.insert(0, os.path.dirname(os.path.abspath(__file__)))
import diffcheck, gen
diffcheck.main("C05", "model_checking", gen.programs,
    rule="slices: for element sizes {0,1,2,3,8,24 bytes, string}: every sequence of <=4 (big starts: 2; thorough 5/3) operations from a 24-operation alphabet "
         "(append one/many/self/overlapping tail, delete idiom, copy overlapping both ways, reslices incl. 3-index and to cap, clear, element stores through either variable, "
         "aliasing assignments, make) from 12 start states (nil, empty, (1,1),(2,4),(3,3),(5,8), and lengths 255..257, 1023..1025 around the growth thresholds), replayed on "
         "fresh objects; after every step len, cap-consistency and every element are compared with a reference model (arrays + (array,offset,len,cap) descriptors) that adopts "
         "the capacity the implementation chose on growth and demands fresh storage then / shared storage otherwise; a final write-through probe checks aliasing. "
         "strings: every byte string of length <=3 (thorough 4) over 12 bytes (ASCII, NUL, continuation, 2/3/4-byte leads, surrogate lead, 0xFF, overlong lead): range, []rune, "
         "[]byte, indexing, all substrings, comparisons; all pairs of length<=2 for + == < <= > >=; integer and rune-slice conversions. case = one (start, first op) subtree or 16 strings",
    samples=["w8/start=2,4,f/a=append(a,a[1:]...) ok seqs=14425", "str/c3a9 len=2 range:0/233, runes=1:233, ..."],
    assumptions=["capacity after growth is implementation-defined: only cap >= needed, fresh storage on growth and sharing otherwise are required",
                 "the model itself is validated by running the same program under go1.24.0 (must print ok everywhere)"],
    post=lambda rep, results, a: rep.coverage.update(
        transitions=sum(int(m) for r in results for v in (r.get("ref_cases") or {}).values() for m in __import__("re").findall(r"seqs=(\d+)", v)) * max(1, len(rep.coverage["backends"])),
        states=sum(int(m) for r in results for v in (r.get("ref_cases") or {}).values() for m in __import__("re").findall(r"seqs=(\d+)", v)),
        traces_validated_against_impl=sum(int(m) for r in results for v in (r.get("ref_cases") or {}).values() for m in __import__("re").findall(r"seqs=(\d+)", v)) * max(1, len(rep.coverage["backends"]))))
