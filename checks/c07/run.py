#!/usr/bin/env python3
"""C07: (a) in-process: Builder.TypeName must induce exactly the partition of types.Identical over all types of constructor depth <=2 (thorough 3);
(b)(c) end-to-end: identical vs near-miss types across packages and all (method-set subset x interface subset) satisfaction/dispatch pairs vs go1.24.0."""
import json, os, sys
sys.path.insert(0, "/verif/lib"); sys.path.insert(0, os.path.dirname(os.path.abspath(__file__)))
from common import *
import diffcheck, gen
HERE = os.path.dirname(os.path.abspath(__file__))

def post(rep, results, a):
    work = workdir("C07")
    out = os.path.join(work, "typename.json")
    if os.path.exists(out): os.remove(out)
    r = go_test_overlay("ssa/abi", {"zz_typename_verif_test.go": os.path.join(HERE, "typename_verif_test.go")}, "^TestVerifTypeName$",
                        env_extra={"VERIF_OUT": out, "VERIF_DEPTH": "3" if a.tier == "thorough" else "2"}, timeout=3000)
    if r.returncode != 0 or not os.path.exists(out):
        rep.violation("harness:typename", "injected test did not complete:\n" + r.stdout[-3000:] + r.stderr[-2000:]); return
    sub = json.load(open(out))[0]
    for v in sub["violations"] or []:
        rep.violation(v["key"], v["what"])
    rep.coverage["evaluations"] += sub["evaluations"]
    rep.coverage["distinct_nontrivial"] += sub["distinct_nontrivial"]
    rep.coverage["typename_partition"] = {k: sub[k] for k in ("evaluations", "distinct_nontrivial", "extra")}
    rep.coverage["samples"] += sub["samples"]

diffcheck.main("C07", "exploration", gen.programs,
    rule="(a) all types of constructor depth <=2 over 30 base types (basics, aliases, named types of two packages incl. same names, function-local types of two functions, "
         "generic instances) with pointer/slice/array/map/chan x3/func (variadic or not, 0-2 params/results)/struct (field name x owning package x tag x embedding)/interface "
         "(method name x owning package x signature): the grouping by run-time name must equal the grouping by types.Identical (every pair decided; the index used for grouping "
         "is itself validated against types.Identical on >100k pairs). (b) every (concrete type with a subset of 3 methods on value or pointer receivers, value or pointer) x every "
         "interface over the same methods: comma-ok assertion and the method bodies reached through the interface, plus embedding/shadowing. (c) 34 identical / near-miss type pairs "
         "across two packages through assertion, type switch, ==, interface-keyed map and reflect.TypeOf ==. non-trivial = identity classes + distinct rows",
    samples=["miss/tag-value assert=f switch=other eq=f mapkeys=2 reflect=f expect-identical=f"],
    assumptions=["go/types.Identical is the specification of type identity"], post=post)
