"""C07 end-to-end generator: dynamic type identity across packages (identical vs near-miss types) and interface satisfaction /
dispatch over all (method-set subset, interface subset) pairs, compared with go1.24.0."""
import itertools, sys
sys.path.insert(0, "/verif/lib")
from prelude import PRELUDE

# (label, Go type expression valid in package main (may refer to q.X), value expression in q returning any of the "other side" type,
#  the other side's type as written in package q)
PAIRS = [
    # identical across packages -> assertion must succeed
    ("same/struct", "struct{ A int }", "struct{ A int }"),
    ("same/struct-tag", "struct { A int `x:\"1\"` }", "struct { A int `x:\"1\"` }"),
    ("same/func", "func(int) string", "func(int) string"),
    ("same/func-variadic", "func(...int)", "func(...int)"),
    ("same/chan", "chan int", "chan int"),
    ("same/map", "map[string][]int", "map[string][]int"),
    ("same/array", "[2]*int", "[2]*int"),
    ("same/iface", "interface{ M() }", "interface{ M() }"),
    ("same/embedded", "struct{ q.N }", "struct{ N }"),
    ("same/nested", "struct{ A struct{ B []q.N } }", "struct{ A struct{ B []N } }"),
    ("same/generic-inst", "q.G[int]", "G[int]"),
    ("same/generic-inst-named", "q.G[q.N]", "G[N]"),
    ("same/ptr-named", "*q.N", "*N"),
    # near misses -> assertion must fail
    ("miss/tag-value", "struct { A int `x:\"1\"` }", "struct { A int `x:\"2\"` }"),
    ("miss/tag-none", "struct { A int `x:\"1\"` }", "struct{ A int }"),
    ("miss/field-name", "struct{ A int }", "struct{ B int }"),
    ("miss/field-order", "struct{ A int; B string }", "struct{ B string; A int }"),
    ("miss/embedded-vs-named", "struct{ q.N }", "struct{ N N }"),
    ("miss/embedded-ptr", "struct{ *q.N }", "struct{ N }"),
    ("miss/unexported-pkg", "struct{ a int }", "struct{ a int }"),
    ("miss/variadic-vs-slice", "func(...int)", "func([]int)"),
    ("miss/func-result", "func(int) string", "func(int) (string, error)"),
    ("miss/chan-dir-recv", "chan int", "<-chan int"),
    ("miss/chan-dir-send", "<-chan int", "chan<- int"),
    ("miss/array-len", "[2]int", "[3]int"),
    ("miss/map-key", "map[string]int", "map[N]int"),
    ("miss/named-vs-underlying", "int", "N"),
    ("miss/same-name-other-pkg", "N", "N"),
    ("miss/embedded-vs-field-spelled-like-type", "struct{ q.N }", "struct{ N N }"),
    ("miss/embedded-ptr-vs-field-spelled-like-type", "struct{ *q.N }", "struct{ N *N }"),
    ("miss/generic-arg", "q.G[int]", "G[int32]"),
    ("miss/generic-arg-named", "q.G[int]", "G[N]"),
    ("miss/iface-unexported-method", "interface{ m() }", "interface{ m() }"),
    ("miss/iface-method-sig", "interface{ M() }", "interface{ M(int) }"),
    ("miss/ptr-depth", "*int", "**int"),
    ("miss/int-width", "int32", "rune0"),
]

Q_SRC = '''package q

type N int
type G[T any] struct{ V T }
type rune0 = int64

// local types with the same name in two functions, and inside generic instances
func L1() any { type L int; return L(1) }
func L2() any { type L int; return L(1) }
func LS1() any { type L struct{ x int }; return L{1} }
func LS2() any { type L struct{ x int }; return L{1} }
func GL[T any]() any { type L struct{ t T }; return L{} }

%s
'''


def gen_identity():
    qfuncs, main = [], []
    for i, (lab, tmain, tq) in enumerate(PAIRS):
        qfuncs.append("func V%d() any { var v %s; return v }" % (i, tq))
        expect = lab.startswith("same/")
        main.append("""	cases = append(cases, func() {
		var mine %(t)s
		x := q.V%(i)d()
		_, ok := x.(%(t)s)
		sw := "other"
		switch x.(type) {
		case %(t)s:
			sw = "match"
		}
		emit("%(lab)s", "assert="+btoa(ok)+" switch="+sw+" eq="+safeEq(any(mine), x)+" mapkeys="+safeKeys(any(mine), x)+" reflect="+btoa(reflect.TypeOf(any(mine)) == reflect.TypeOf(x))+" expect-identical=%(exp)s")
	})""" % dict(t=tmain, i=i, lab=lab, exp="t" if expect else "f"))
    main.append("""	cases = append(cases, func() {
		emit("local/same-func-twice", btoa(q.L1() == q.L1())+btoa(reflect.TypeOf(q.L1()) == reflect.TypeOf(q.L1())))
		emit("local/two-funcs", btoa(q.L1() == q.L2())+btoa(reflect.TypeOf(q.L1()) == reflect.TypeOf(q.L2())))
		emit("local/struct-two-funcs", btoa(q.LS1() == q.LS2())+btoa(reflect.TypeOf(q.LS1()) == reflect.TypeOf(q.LS2())))
		emit("local/generic-same-inst", btoa(q.GL[int]() == q.GL[int]())+btoa(reflect.TypeOf(q.GL[int]()) == reflect.TypeOf(q.GL[int]())))
		emit("local/generic-two-inst", btoa(reflect.TypeOf(q.GL[int]()) == reflect.TypeOf(q.GL[string]()))+btoa(reflect.TypeOf(q.GL[int]()) == reflect.TypeOf(q.GL[q.N]())))
		emit("local/generic-inst-from-main-type", btoa(reflect.TypeOf(q.GL[N]()) == reflect.TypeOf(q.GL[q.N]()))+btoa(reflect.TypeOf(q.GL[N]()) == reflect.TypeOf(q.GL[N]())))
		for _, pair := range [][2]any{pairOf(GEmb[int]()), pairOf(GEmb[string]())} {
			_, n0 := pair[0].(interface{ Name() string })
			_, n1 := pair[1].(interface{ Name() string })
			emit("local/generic-embedded-vs-named", btoa(reflect.TypeOf(pair[0]) == reflect.TypeOf(pair[1]))+btoa(pair[0] == pair[1])+btoa(n0)+btoa(n1)+itoa(int64(reflect.TypeOf(pair[0]).NumMethod()))+itoa(int64(reflect.TypeOf(pair[1]).NumMethod()))+itoa(int64(len(map[any]int{pair[0]: 1, pair[1]: 2}))))
		}
		m := map[any]string{q.L1(): "a", q.L2(): "b", 1: "c", q.N(1): "d", N(1): "e", int64(1): "f"}
		emit("local/map-keys", itoa(int64(len(m))))
	})""")
    src = PRELUDE.replace('import (\n\t"os"\n\t"unsafe"\n)', 'import (\n\t"os"\n\t"reflect"\n\t"unsafe"\n\t"vt/q"\n)')
    src += """
func pairOf(a, b any) [2]any { return [2]any{a, b} }

type Namer struct{}

func (Namer) Name() string { return "namer" }

// unnamed structs around a type that is local to a generic function: embedded vs named field of the same type
// (kept in package main: instantiating such a function across packages does not link with llgo at the pinned commit)
func GEmb[T any]() (any, any) {
	type Rec struct {
		Namer
		v T
	}
	return struct{ Rec }{}, struct{ Rec Rec }{}
}

// == and map insertion panic for uncomparable dynamic types: that is an observation too ("P")
func safeEq(a, b any) (res string) {
	defer func() {
		if recover() != nil {
			res = "P"
		}
	}()
	return btoa(a == b)
}

func safeKeys(a, b any) (res string) {
	defer func() {
		if recover() != nil {
			res = "P"
		}
	}()
	m := map[any]int{a: 1}
	m[b]++
	return itoa(int64(len(m)))
}
"""
    src += "\nvar cases []func()\n\ntype N int\n\nfunc main() {\n" + "\n".join(main) + "\n\trunAll(cases)\n}\n"
    return {"main.go": src, "q/q.go": Q_SRC % "\n".join(qfuncs)}


METHODS = [("A", "()", "string", "\"A\""), ("B", "(x int)", "string", "\"B\""), ("c", "()", "string", "\"c\"")]


def gen_ifaces():
    decls, main = [], []
    subsets = [s for r in range(4) for s in itertools.combinations(range(3), r)]
    name = lambda s: "".join(str(i) for i in s) or "e"
    for s in subsets:
        for recv, tn in (("v", "Tv"), ("p", "Tp")):
            t = "%s%s" % (tn, name(s))
            decls.append("type %s struct{ id int }" % t)
            for i in s:
                m, params, res, tag = METHODS[i]
                r = "(t %s)" % t if recv == "v" else "(t *%s)" % t
                decls.append("func %s %s%s %s { return \"%s.\" + %s }" % (r, m, params, res, t, tag))
        decls.append("type I%s interface{ %s }" % (name(s), "; ".join("%s%s %s" % (METHODS[i][0], METHODS[i][1], METHODS[i][2]) for i in s)))
    # embedding and shadowing
    decls.append("type E1 struct{ Tv01 }\ntype E2 struct{ *Tp012 }\ntype E3 struct{ E1; x int }\ntype E4 struct{ Tv01 }\nfunc (E4) A() string { return \"E4.A\" }\ntype E5 struct{ Tv0; Tp1 }")
    def call(i, recvexpr):
        m = METHODS[i][0]
        return "%s.%s(%s)" % (recvexpr, m, "1" if i == 1 else "")
    for s in subsets:
        for tn in ("Tv", "Tp"):
            t = "%s%s" % (tn, name(s))
            body = ["\t\tout := \"\""]
            for form, expr in (("val", "any(%s{})" % t), ("ptr", "any(&%s{})" % t)):
                for k in subsets:
                    body.append("\t\tif i, ok := %s.(I%s); ok {\n\t\t\t_ = i\n\t\t\tout += \"%s>%s:\"%s + \" \"\n\t\t} else {\n\t\t\tout += \"%s>%s:no \"\n\t\t}" % (
                        expr, name(k), form, name(k), "".join(" + " + call(i, "i") for i in k), form, name(k)))
            main.append("\tcases = append(cases, func() {\n%s\n\t\temit(\"sat/%s\", out)\n\t})" % ("\n".join(body), t))
    users = [("Tv" if recv == "v" else "Tp") + name(sb) for sb in subsets if 0 in sb for recv in ("v", "p")]
    keyed = ["\t\tm := map[I0]int{}\n\t\tms := map[struct{ K I0 }]int{}\n\t\tfor round := 0; round < 3; round++ {"]
    for u in users:
        val = ("%s{id: 1}" % u) if u.startswith("Tv") else ("ptrs_%s" % u)
        keyed.append("\t\t\tm[I0(%s)]++\n\t\t\tms[struct{ K I0 }{%s}]++" % (val, val))
        # unrelated conversions in between, to other interfaces and of other types
        keyed.append("\t\t\tsink = append(sink[:0], any(I01(Tv01{})), any(I012(&Tp012{})), any(I02(Tv012{})), any(I1(Tv1{})))")
    keyed.append("\t\t}\n\t\tcounts := \"\"\n\t\tfor _, c := range m {\n\t\t\tif c != 3 {\n\t\t\t\tcounts += \"!\"\n\t\t\t}\n\t\t}\n\t\temit(\"ifacekeys\", itoa(int64(len(m)))+\"/\"+itoa(int64(len(ms)))+counts)")
    decls.append("var sink []any")
    for u in users:
        if u.startswith("Tp"):
            decls.append("var ptrs_%s = &%s{id: 1}" % (u, u))
    main.append("\tcases = append(cases, func() {\n%s\n\t})" % "\n".join(keyed))
    emb = ["\t\tout := \"\""]
    for t in ("E1{}", "&E1{}", "E2{&Tp012{}}", "E3{}", "&E3{}", "E4{}", "E5{}", "&E5{}"):
        for k in subsets:
            if not k:
                continue
            emb.append("\t\tif i, ok := any(%s).(I%s); ok {\n\t\t\tout += \"%s>%s:\"%s + \" \"\n\t\t} else {\n\t\t\tout += \"%s>%s:no \"\n\t\t}" % (
                t, name(k), t.replace('"', "'"), name(k), "".join(" + " + call(i, "i") for i in k), t.replace('"', "'"), name(k)))
    main.append("\tcases = append(cases, func() {\n%s\n\t\temit(\"sat/embedding\", out)\n\t})" % "\n".join(emb))
    src = PRELUDE + "\nvar cases []func()\n\n" + "\n".join(decls) + "\n\nfunc main() {\n" + "\n".join(main) + "\n\trunAll(cases)\n}\n"
    return {"main.go": src}


# ---------------------------------------------------------------- interface-to-interface assertions and promoted unexported methods across packages
# Pools of interfaces and concrete types whose methods differ only in signature or in the package owning an unexported name. For every concrete type C,
# every interface I that C implements and every interface J of the pool: `var i I = C{}; j, ok := i.(J)` (and a type switch over the pool) must decide as
# Go does, and a successful assertion must yield a usable method table (the first method is called through it).
I2I_P = """package %(pk)s

type Tagger interface{ tag() string }

type TagArea interface {
	tag() string
	Area() int
}

type %(T)s struct{}

func (%(T)s) tag() string { return "%(pk)s.%(T)s.tag" }
func (%(T)s) Area() int   { return %(n)d }

func UseTagger(t Tagger) string   { return t.tag() }
func UseTagArea(t TagArea) string { return t.tag() + string(rune('0'+t.Area())) }
"""


def gen_i2i():
    # interface -> (Go expression, method set, how to call its first method on variable j)
    ifs = [
        ("AreaI", "AreaI", {("Area", "int")}, "itoa(int64(j.Area()))"),
        ("AreaF", "AreaF", {("Area", "float64")}, "itoa(int64(j.Area() * 2))"),
        ("NameI", "NameI", {("Name", "()")}, "j.Name()"),
        ("Name1", "Name1", {("Name", "(int)")}, "j.Name(1)"),
        ("AreaName", "AreaName", {("Area", "int"), ("Name", "()")}, "itoa(int64(j.Area())) + j.Name()"),
        ("AreaFName", "AreaFName", {("Area", "float64"), ("Name", "()")}, "j.Name()"),
        ("pTagger", "p.Tagger", {("p.tag", "")}, "p.UseTagger(j)"),
        ("qTagger", "q.Tagger", {("q.tag", "")}, "q.UseTagger(j)"),
        ("pTagArea", "p.TagArea", {("p.tag", ""), ("Area", "int")}, "p.UseTagArea(j)"),
        ("qTagArea", "q.TagArea", {("q.tag", ""), ("Area", "int")}, "q.UseTagArea(j)"),
        ("mTagger", "mTagger", {("main.tag", "")}, "j.tag()"),
    ]
    cs = [
        ("T1", "T1{}", {("Area", "int"), ("Name", "()")}),
        ("T2", "T2{}", {("Area", "float64"), ("Name", "(int)")}),
        ("pPT", "p.PT{}", {("p.tag", ""), ("Area", "int")}),
        ("qQT", "q.QT{}", {("q.tag", ""), ("Area", "int")}),
        ("WP", "WP{}", {("p.tag", ""), ("Area", "int")}),
        ("WQ", "WQ{&q.QT{}}", {("q.tag", ""), ("Area", "int")}),
        ("WB", "WB{}", {("p.tag", ""), ("Area", "int"), ("Name", "()")}),
        ("WI", "WI{p.PT{}}", {("p.tag", ""), ("Area", "int")}),
        ("MT", "MT{}", {("main.tag", ""), ("Area", "int")}),
    ]
    decls = """
type AreaI interface{ Area() int }
type AreaF interface{ Area() float64 }
type NameI interface{ Name() string }
type Name1 interface{ Name(int) string }
type AreaName interface {
	Area() int
	Name() string
}
type AreaFName interface {
	Area() float64
	Name() string
}
type mTagger interface{ tag() string }

type T1 struct{}

func (T1) Area() int    { return 7 }
func (T1) Name() string { return "T1" }

type T2 struct{}

func (T2) Area() float64      { return 1.5 }
func (T2) Name(k int) string { return "T2" }

type WP struct{ p.PT }
type WQ struct{ *q.QT }
type WB struct {
	p.PT
	name string
}

func (WB) Name() string { return "WB" }

type WI struct{ p.TagArea }
type MT struct{}

func (MT) tag() string { return "main.MT.tag" }
func (MT) Area() int   { return 3 }

func try(f func() string) (s string) {
	defer func() {
		if recover() != nil {
			s = "PANIC"
		}
	}()
	return f()
}
"""
    main = []
    n = 0
    for cn, cexpr, cms in cs:
        for iname, iexpr, ims, _ in ifs:
            if not ims <= cms:
                continue
            body = ["\t\tout := \"\"", "\t\tvar i %s = %s" % (iexpr, cexpr)]
            for jname, jexpr, jms, jcall in ifs:
                body.append("\t\tif j, ok := i.(%s); ok {\n\t\t\tout += \"%s:\" + try(func() string { return %s }) + \" \"\n\t\t} else {\n\t\t\tout += \"%s:no \"\n\t\t}" % (jexpr, jname, jcall, jname))
                n += 1
            # a type switch over the pool in two orders: the first matching case
            for order, lab in ((ifs, "sw"), (list(reversed(ifs)), "ws")):
                body.append("\t\tswitch i.(type) {\n" + "".join("\t\tcase %s:\n\t\t\tout += \"%s=%s \"\n" % (jexpr, lab, jname) for jname, jexpr, _, _ in order) + "\t\t}")
            main.append("\tcases = append(cases, func() {\n%s\n\t\temit(\"i2i/%s/%s\", out)\n\t})" % ("\n".join(body), cn, iname))
    # static conversions to the other packages' interfaces and from any
    stat = ["\t\tout := \"\""]
    for cn, cexpr, cms in cs:
        for jname, jexpr, jms, jcall in ifs:
            if jms <= cms and jname in ("pTagger", "qTagger", "pTagArea", "qTagArea"):
                stat.append("\t\tout += \"%s>%s:\" + try(func() string { var j %s = %s; return %s }) + \" \"" % (cn, jname, jexpr, cexpr, jcall))
            stat.append("\t\tif j, ok := any(%s).(%s); ok {\n\t\t\tout += \"any(%s)>%s:\" + try(func() string { return %s }) + \" \"\n\t\t} else {\n\t\t\tout += \"any(%s)>%s:no \"\n\t\t}" % (cexpr, jexpr, cn, jname, jcall, cn, jname))
    main.append("\tcases = append(cases, func() {\n%s\n\t\temit(\"i2i/static-and-any\", out)\n\t})" % "\n".join(stat))
    src = PRELUDE.replace('import (\n\t"os"\n\t"unsafe"\n)', 'import (\n\t"os"\n\t"unsafe"\n\n\t"vt/p"\n\t"vt/q"\n)') + "\nvar cases []func()\n" + decls + "\nfunc main() {\n" + "\n".join(main) + "\n\trunAll(cases)\n}\n"
    return {"main.go": src, "p/p.go": I2I_P % dict(pk="p", T="PT", n=1), "q/q.go": I2I_P % dict(pk="q", T="QT", n=2)}


def programs(tier):
    return {"identity": gen_identity(), "ifaces": gen_ifaces(), "i2i": gen_i2i()}


if __name__ == "__main__":
    import os
    for k, files in programs("quick").items():
        d = os.path.join(sys.argv[1], k)
        for rel, txt in files.items():
            os.makedirs(os.path.dirname(os.path.join(d, rel)), exist_ok=True)
            open(os.path.join(d, rel), "w").write(txt)
        open(os.path.join(d, "go.mod"), "w").write("module vt\n\ngo 1.24\n")
