package abi_test

// Injected by /verif (C07a): Builder.TypeName must induce exactly the partition of types.Identical.

import (
	"encoding/json"
	"fmt"
	"go/ast"
	"go/importer"
	"go/parser"
	"go/token"
	"go/types"
	"os"
	"sort"
	"strconv"
	"strings"
	"testing"

	"github.com/goplus/llgo/ssa/abi"
)

type vres struct {
	Name        string           `json:"name"`
	Evaluations int              `json:"evaluations"`
	Nontrivial  int              `json:"distinct_nontrivial"`
	Violations  []map[string]any `json:"violations"`
	Samples     []any            `json:"samples"`
	Exhaustive  bool             `json:"exhaustive"`
	Extra       map[string]any   `json:"extra"`
}

func (r *vres) viol(key, what string) {
	if len(r.Violations) < 60 {
		r.Violations = append(r.Violations, map[string]any{"key": key, "what": what})
	}
}

const srcP = `package p
type N int
type n int
type S struct{ A int }
type G[T any] struct{ v T }
type A = int
type I interface{ M() }
type F func(int) string
func f1() (any, any) { type L int; type M struct{ x L }; return L(0), M{} }
func f2() (any, any) { type L int; type M struct{ x L }; return L(0), M{} }
func g1[T any]() any { type L struct{ t T }; return L{} }
var (
	_ G[int]
	_ G[N]
	_ G[string]
	_ G[[]int]
	_ = g1[int]
	_ = g1[string]
)
`
const srcQ = `package q
type N int
type n int
type S struct{ A int }
type G[T any] struct{ v T }
func f1() any { type L int; return L(0) }
var (
	_ G[int]
)
`

type fakeImporter map[string]*types.Package

func (f fakeImporter) Import(path string) (*types.Package, error) {
	if p, ok := f[path]; ok {
		return p, nil
	}
	return importer.Default().Import(path)
}

func check(t *testing.T, fset *token.FileSet, path, src string, imp fakeImporter) (*types.Package, *types.Info) {
	f, err := parser.ParseFile(fset, path+".go", src, 0)
	if err != nil {
		t.Fatal(err)
	}
	info := &types.Info{Types: map[ast.Expr]types.TypeAndValue{}, Defs: map[*ast.Ident]types.Object{}, Instances: map[*ast.Ident]types.Instance{}}
	pkg, err := (&types.Config{Importer: imp}).Check("example.com/"+path, fset, []*ast.File{f}, info)
	if err != nil {
		t.Fatal(err)
	}
	imp["example.com/"+path] = pkg
	return pkg, info
}

// ref renders a type canonically for identity (index structure; validated against types.Identical below)
type refCtx struct {
	ids map[types.Object]int
}

func (c *refCtx) ref(t types.Type) string {
	switch t := t.(type) {
	case *types.Basic:
		switch t.Kind() {
		case types.Byte:
			return "uint8"
		case types.Rune:
			return "int32"
		}
		return t.Name()
	case *types.Alias:
		return c.ref(types.Unalias(t))
	case *types.Named:
		o := t.Origin().Obj()
		id, ok := c.ids[o]
		if !ok {
			id = len(c.ids)
			c.ids[o] = id
		}
		s := "N" + strconv.Itoa(id)
		if ta := t.TypeArgs(); ta != nil {
			var as []string
			for i := 0; i < ta.Len(); i++ {
				as = append(as, c.ref(ta.At(i)))
			}
			s += "[" + strings.Join(as, ",") + "]"
		}
		return s
	case *types.Pointer:
		return "*" + c.ref(t.Elem())
	case *types.Slice:
		return "[]" + c.ref(t.Elem())
	case *types.Array:
		return "[" + strconv.FormatInt(t.Len(), 10) + "]" + c.ref(t.Elem())
	case *types.Map:
		return "map[" + c.ref(t.Key()) + "]" + c.ref(t.Elem())
	case *types.Chan:
		return []string{"chan ", "chan<- ", "<-chan "}[t.Dir()] + "(" + c.ref(t.Elem()) + ")"
	case *types.Signature:
		s := "func("
		for i := 0; i < t.Params().Len(); i++ {
			s += c.ref(t.Params().At(i).Type()) + ","
		}
		if t.Variadic() {
			s += "..."
		}
		s += ")("
		for i := 0; i < t.Results().Len(); i++ {
			s += c.ref(t.Results().At(i).Type()) + ","
		}
		return s + ")"
	case *types.Struct:
		s := "struct{"
		for i := 0; i < t.NumFields(); i++ {
			f := t.Field(i)
			name := f.Name()
			if !f.Exported() && f.Pkg() != nil {
				name = f.Pkg().Path() + "." + name
			}
			if f.Embedded() {
				name = "embed:" + name
			}
			s += name + " " + c.ref(f.Type()) + " " + strconv.Quote(t.Tag(i)) + ";"
		}
		return s + "}"
	case *types.Interface:
		var ms []string
		for i := 0; i < t.NumMethods(); i++ {
			m := t.Method(i)
			name := m.Name()
			if !m.Exported() && m.Pkg() != nil {
				name = m.Pkg().Path() + "." + name
			}
			ms = append(ms, name+c.ref(m.Type()))
		}
		sort.Strings(ms)
		return "interface{" + strings.Join(ms, ";") + "}"
	case *types.TypeParam:
		return "TP" + t.Obj().Name()
	}
	panic(fmt.Sprintf("ref: %T", t))
}

func TestVerifTypeName(t *testing.T) {
	depth := 2
	if v, err := strconv.Atoi(os.Getenv("VERIF_DEPTH")); err == nil {
		depth = v
	}
	fset := token.NewFileSet()
	imp := fakeImporter{}
	pp, pinfo := check(t, fset, "p", srcP, imp)
	qp, qinfo := check(t, fset, "q", srcQ, imp)
	var base []types.Type
	for _, k := range []types.BasicKind{types.Int, types.Int32, types.Uint8, types.String, types.Float64, types.Bool, types.UnsafePointer} {
		base = append(base, types.Typ[k])
	}
	base = append(base, types.Universe.Lookup("byte").Type(), types.Universe.Lookup("rune").Type(), types.Universe.Lookup("error").Type(), types.Universe.Lookup("any").Type())
	addDefs := func(info *types.Info) {
		var objs []types.Object
		for _, o := range info.Defs {
			if tn, ok := o.(*types.TypeName); ok {
				if _, isTP := tn.Type().(*types.TypeParam); isTP {
					continue
				}
				if n, ok := tn.Type().(*types.Named); ok && n.TypeParams() != nil {
					continue // uninstantiated generic
				}
				if strings.Contains(tn.Parent().String(), "function") && tn.Pkg() != nil {
					// local type inside a generic function is only meaningful per instance: skipped here (covered end-to-end)
					if fnIsGeneric(tn) {
						continue
					}
				}
				objs = append(objs, o)
			}
		}
		sort.Slice(objs, func(i, j int) bool { return objs[i].Pos() < objs[j].Pos() })
		for _, o := range objs {
			base = append(base, o.Type())
		}
		var insts []types.Type
		for _, in := range info.Instances {
			if _, ok := in.Type.(*types.Named); ok {
				insts = append(insts, in.Type)
			}
		}
		sort.Slice(insts, func(i, j int) bool { return insts[i].String() < insts[j].String() })
		base = append(base, insts...)
	}
	addDefs(pinfo)
	addDefs(qinfo)
	small := base[:4]
	mkVar := func(pkg *types.Package, name string, typ types.Type) *types.Var { return types.NewVar(token.NoPos, pkg, name, typ) }
	expand := func(in []types.Type, elems []types.Type) []types.Type {
		var out []types.Type
		for _, e := range elems {
			out = append(out, types.NewPointer(e), types.NewSlice(e), types.NewArray(e, 0), types.NewArray(e, 1), types.NewArray(e, 2),
				types.NewChan(types.SendRecv, e), types.NewChan(types.SendOnly, e), types.NewChan(types.RecvOnly, e))
			for _, k := range small {
				out = append(out, types.NewMap(k, e))
			}
			// structs: field name x owning package x tag x embedding
			for _, nm := range []struct {
				name string
				pkg  *types.Package
			}{{"A", pp}, {"B", pp}, {"a", pp}, {"a", qp}, {"_", pp}} {
				for _, tag := range []string{"", `x:"1"`, `x:"2"`} {
					out = append(out, types.NewStruct([]*types.Var{types.NewField(token.NoPos, nm.pkg, nm.name, e, false)}, []string{tag}))
				}
			}
			if n, ok := types.Unalias(e).(*types.Named); ok {
				out = append(out, types.NewStruct([]*types.Var{types.NewField(token.NoPos, n.Obj().Pkg(), n.Obj().Name(), e, true)}, nil))
				out = append(out, types.NewStruct([]*types.Var{types.NewField(token.NoPos, n.Obj().Pkg(), n.Obj().Name(), e, false)}, nil))
				out = append(out, types.NewStruct([]*types.Var{types.NewField(token.NoPos, n.Obj().Pkg(), n.Obj().Name(), types.NewPointer(e), true)}, nil))
			}
			for _, f2 := range small {
				out = append(out, types.NewStruct([]*types.Var{types.NewField(token.NoPos, pp, "A", e, false), types.NewField(token.NoPos, pp, "B", f2, false)}, nil))
				out = append(out, types.NewStruct([]*types.Var{types.NewField(token.NoPos, pp, "B", f2, false), types.NewField(token.NoPos, pp, "A", e, false)}, nil))
			}
			// funcs: 0-2 params / results, variadic or slice
			for _, p2 := range append([]types.Type{nil}, small[:2]...) {
				var ps []*types.Var
				ps = append(ps, mkVar(nil, "x", e))
				if p2 != nil {
					ps = append(ps, mkVar(nil, "", p2))
				}
				for _, res := range [][]*types.Var{nil, {mkVar(nil, "", e)}, {mkVar(nil, "r", e), mkVar(nil, "", small[1])}} {
					out = append(out, types.NewSignatureType(nil, nil, nil, types.NewTuple(ps...), types.NewTuple(res...), false))
				}
			}
			out = append(out, types.NewSignatureType(nil, nil, nil, types.NewTuple(mkVar(nil, "", types.NewSlice(e))), nil, true))
			out = append(out, types.NewSignatureType(nil, nil, nil, types.NewTuple(mkVar(nil, "", types.NewSlice(e))), nil, false))
			out = append(out, types.NewSignatureType(nil, nil, nil, nil, types.NewTuple(mkVar(nil, "", e)), false))
			// interfaces over a method pool
			sig0 := types.NewSignatureType(nil, nil, nil, nil, nil, false)
			sig1 := types.NewSignatureType(nil, nil, nil, types.NewTuple(mkVar(nil, "", e)), nil, false)
			mk := func(ms ...*types.Func) types.Type { return types.NewInterfaceType(ms, nil).Complete() }
			out = append(out, mk(types.NewFunc(token.NoPos, pp, "M", sig0)), mk(types.NewFunc(token.NoPos, pp, "M", sig1)), mk(types.NewFunc(token.NoPos, pp, "m", sig1)),
				mk(types.NewFunc(token.NoPos, qp, "m", sig1)), mk(types.NewFunc(token.NoPos, pp, "M", sig1), types.NewFunc(token.NoPos, pp, "N", sig0)),
				mk(types.NewFunc(token.NoPos, qp, "M", sig1)))
		}
		return out
	}
	all := append([]types.Type{}, base...)
	level := base
	for d := 1; d <= depth; d++ {
		elems := level
		if d > 1 {
			// deeper levels: every 7th type of the previous level plus the near-miss families (structs / funcs / chans)
			var sel []types.Type
			for i, e := range level {
				switch e.(type) {
				case *types.Struct, *types.Signature, *types.Chan, *types.Interface:
					if i%3 == 0 {
						sel = append(sel, e)
					}
				default:
					if i%7 == 0 {
						sel = append(sel, e)
					}
				}
			}
			elems = sel
		}
		level = expand(nil, elems)
		all = append(all, level...)
	}
	r := &vres{Name: "abi.TypeName_vs_types.Identical", Exhaustive: true, Extra: map[string]any{"depth": depth, "base_types": len(base)}}
	b := abi.New(8, types.SizesFor("gc", "amd64"))
	ctx := &refCtx{ids: map[types.Object]int{}}
	byName := map[string][]int{}
	byRef := map[string][]int{}
	names := make([]string, len(all))
	refs := make([]string, len(all))
	for i, ty := range all {
		func() {
			defer func() {
				if e := recover(); e != nil {
					r.viol("panic:"+ctx.ref(ty), fmt.Sprintf("TypeName panicked on %s: %v", ty, e))
				}
			}()
			names[i], _ = b.TypeName(ty)
		}()
		refs[i] = ctx.ref(ty)
		byName[names[i]] = append(byName[names[i]], i)
		byRef[refs[i]] = append(byRef[refs[i]], i)
	}
	r.Evaluations = len(all)
	r.Nontrivial = len(byRef)
	// validate the index structure against the real oracle: same ref <=> types.Identical, on all within-group pairs and a systematic cross sample
	for _, idx := range byRef {
		for k := 1; k < len(idx); k++ {
			if !types.Identical(all[idx[0]], all[idx[k]]) {
				t.Fatalf("harness: ref() merges non-identical types %s / %s", all[idx[0]], all[idx[k]])
			}
		}
	}
	keys := make([]string, 0, len(byRef))
	for k := range byRef {
		keys = append(keys, k)
	}
	sort.Strings(keys)
	cross := 0
	for i := 0; i < len(keys); i++ {
		for _, j := range []int{i + 1, i + 2, i + 17, (i * 31) % len(keys)} {
			if j < len(keys) && j != i {
				cross++
				if types.Identical(all[byRef[keys[i]][0]], all[byRef[keys[j]][0]]) {
					t.Fatalf("harness: ref() separates identical types %s / %s", all[byRef[keys[i]][0]], all[byRef[keys[j]][0]])
				}
			}
		}
	}
	r.Extra["oracle_pairs_checked"] = cross
	// 1. one name, several identity classes: distinct types share a descriptor name (a type assertion between them would succeed)
	pairs := 0
	for name, idx := range byName {
		cls := map[string]int{}
		for _, i := range idx {
			cls[refs[i]] = i
		}
		if len(cls) > 1 {
			var ex []string
			for _, i := range cls {
				ex = append(ex, all[i].String())
			}
			sort.Strings(ex)
			if len(ex) > 3 {
				ex = ex[:3]
			}
			r.viol("merge:"+strings.Join(ex, " | "), fmt.Sprintf("distinct types share the run-time name %s: %s", name, strings.Join(ex, " | ")))
		}
		pairs += len(idx) * (len(idx) - 1) / 2
	}
	// 2. one identity class, several names: identical types would get different descriptors (assertions between packages fail)
	for _, idx := range byRef {
		ns := map[string]bool{}
		for _, i := range idx {
			ns[names[i]] = true
		}
		if len(ns) > 1 {
			var l []string
			for n := range ns {
				l = append(l, n)
			}
			sort.Strings(l)
			r.viol("split:"+all[idx[0]].String(), fmt.Sprintf("the type %s gets several run-time names: %v", all[idx[0]], l))
		}
	}
	r.Extra["identical_pairs"] = pairs
	r.Extra["names"] = len(byName)
	r.Samples = []any{all[len(all)/2].String() + " => " + names[len(all)/2], all[len(all)-5].String() + " => " + names[len(all)-5]}
	if p := os.Getenv("VERIF_OUT"); p != "" {
		bs, _ := json.Marshal([]*vres{r})
		os.WriteFile(p, bs, 0o644)
	}
}

func fnIsGeneric(tn *types.TypeName) bool {
	for s := tn.Parent(); s != nil; s = s.Parent() {
		for _, n := range s.Names() {
			if o, ok := s.Lookup(n).(*types.TypeName); ok {
				if _, isTP := o.Type().(*types.TypeParam); isTP {
					return true
				}
			}
		}
	}
	return false
}
