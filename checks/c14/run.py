#!/usr/bin/env python3
"""C14: a program generated from a naming feature matrix (same-named methods/types/globals in packages x/t and y/t, closures nested 0-3 deep in
functions, methods, generic methods, init and initialisers, generic instances emitted from two packages, method values/expressions, promoted
methods of same-named local types) must print the generator-assigned ids (vs go1.24.0); and in the IR of one build no strong symbol is defined
twice and every mergeable symbol has identical definitions in all modules that emit it."""
import glob, hashlib, os, re, shutil, subprocess, sys
sys.path.insert(0, "/verif/lib"); sys.path.insert(0, os.path.dirname(os.path.abspath(__file__)))
from common import *
import diffcheck, gen

DEF = re.compile(r'^define (?P<attrs>[^@]*)@(?P<name>"[^"]+"|[\w.$-]+)\(', re.M)

def census(rep, results, a):
    d = workdir("C14", "census")
    src = os.path.join(d, "src"); gc = os.path.join(d, "gocache")
    write_module(src, gen.programs(a.tier)["names"])
    if os.path.exists(gc): shutil.rmtree(gc)
    os.makedirs(gc)
    e = llgo_env("A", "-census"); e["GOCACHE"] = gc
    xdg = e["XDG_CACHE_HOME"]
    shutil.rmtree(xdg, ignore_errors=True); os.makedirs(xdg)     # every package must be compiled in this build so that its IR is emitted
    # backend A cannot assemble its own printed IR (LLVM 14 printer bug), so the IR is taken from a clang-22 build (same compiler front half)
    e["VERIF_BACKEND"] = "C"
    r = subprocess.run([llgo_path(), "build", "-O0", "-gen-llfiles", "-o", os.path.join(d, "x.exe"), "."], cwd=src, env=e, capture_output=True, text=True, timeout=3000)
    lls = glob.glob(os.path.join(gc, "*", "*.ll"))
    if r.returncode != 0 or not lls:
        rep.violation("harness:census", "IR census build failed:\n" + r.stderr[-2000:]); return
    strong, merge = {}, {}
    nmods = 0
    for f in lls:
        txt = open(f).read()
        nmods += 1
        priv = dict(re.findall(r'^(@[\w.$"-]+) = (private [^\n]*)$', txt, re.M))
        for m in DEF.finditer(txt):
            attrs, name = m.group("attrs"), m.group("name").strip('"')
            end = txt.find("\n}\n", m.end())
            body = txt[m.start():end]
            if "internal " in attrs or "private " in attrs:
                continue
            # normalise references to module-private constants by their contents
            nb = re.sub(r'@[\w.$"-]+', lambda mm: priv.get(mm.group(0), mm.group(0)), body)
            nb = re.sub(r'^define [^@]*', "define ", nb)
            h = hashlib.sha256(nb.encode()).hexdigest()[:16]
            if "weak" in attrs or "linkonce" in attrs:
                merge.setdefault(name, {}).setdefault(h, []).append(os.path.basename(f))
            else:
                strong.setdefault(name, []).append(os.path.basename(f))
    for name, fs in strong.items():
        if len(fs) > 1:
            rep.violation("dupstrong:" + name, "symbol %s has a strong definition in %d modules (%s)" % (name, len(fs), fs[:3]))
    nmerge = 0
    for name, hs in merge.items():
        if sum(len(v) for v in hs.values()) > 1:
            nmerge += 1
        if len(hs) > 1:
            rep.violation("mergediff:" + name, "mergeable symbol %s is emitted with %d different bodies by %s" % (name, len(hs), [v[0] for v in hs.values()][:4]))
    rep.coverage["census"] = {"modules": nmods, "strong_symbols": len(strong), "mergeable_symbols": len(merge), "mergeable_emitted_by_several_modules": nmerge}
    rep.coverage["evaluations"] += len(strong) + len(merge)
    rep.coverage["distinct_nontrivial"] += nmerge

diffcheck.main("C14", "exploration", gen.programs,
    rule="program: packages x/t and y/t are textually identical except for the ids they return (same-named types T, U, G[E], globals, init functions, local types, generic functions); "
         "for each: methods on T, *T, U, G[int], G[string], G[T] and free functions with closures nested 0..3 deep; method values, method expressions and interface dispatch on the same-named "
         "types taken in main; promoted methods of same-named function-local types; generic functions instantiated with types of both packages, aliases, composite and local types, from main and "
         "from a second package. case = one entity; the printed id must be the generator's. IR census of one complete build: every non-internal definition of every module",
    samples=["n067: f, g := xt.T{}.Who, yt.T{}.Who -> x/t.T|y/t.T|x/t.T"],
    assumptions=["bodies of mergeable definitions are compared textually after replacing module-private constants by their contents"], post=census)
