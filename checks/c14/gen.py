"""C14 generator: a multi-package program from the product of a naming feature matrix; every entity returns a generator-assigned id,
so a silently merged or mis-bound symbol shows up as a wrong id (vs go1.24.0). The per-package IR is also censused by the runner."""
import itertools, sys
sys.path.insert(0, "/verif/lib")
from prelude import PRELUDE


def closure_chain(tag, depth, captured="r"):
    """expression text: a closure nested `depth` deep returning tag"""
    body = 'return "%s/d%d:" + %s' % (tag, depth, captured)
    for d in range(depth, 0, -1):
        body = "return func() string { %s }()" % body
    return body


def pkg_t(path_tag):
    """package t (two copies: x/t and y/t) with same-named types, methods, globals, generic types and local types"""
    src = ["package t\n"]
    src.append('var Global = "%s.Global"\nvar counter int\n' % path_tag)
    src.append("type T struct{ N int }\ntype U struct{ N int }\ntype G[E any] struct{ e E }\ntype I interface{ Who() string }\n")
    for recv, rt, cap in (("T", "(v T)", '"T"'), ("PT", "(p *T)", '"PT"')):
        pass
    for depth in range(0, 4):
        src.append("func (v T) Who%d() string { r := \"val\"; _ = r; %s }" % (depth, closure_chain(path_tag + ".T.Who", depth)))
        src.append("func (p *T) PWho%d() string { r := \"ptr\"; _ = r; %s }" % (depth, closure_chain(path_tag + ".*T.PWho", depth)))
        src.append("func (v U) Who%d() string { r := \"u\"; _ = r; %s }" % (depth, closure_chain(path_tag + ".U.Who", depth)))
        src.append("func (g G[E]) Who%d() string { r := \"g\"; _ = r; %s }" % (depth, closure_chain(path_tag + ".G.Who", depth)))
        src.append("func Free%d() string { r := \"f\"; _ = r; %s }" % (depth, closure_chain(path_tag + ".Free", depth)))
    src.append("func (v T) Who() string { return \"%s.T\" }\nfunc (v U) Who() string { return \"%s.U\" }\n" % (path_tag, path_tag))
    src.append("// same-named local types in two functions, each with a method-carrying embedded field\ntype base struct{ id string }\nfunc (b base) M() string { return b.id }\n")
    src.append("func Local1() interface{ M() string } { type L struct{ base }; return L{base{\"%s.Local1.L\"}} }" % path_tag)
    src.append("func Local2() interface{ M() string } { type L struct{ base; x int }; return L{base{\"%s.Local2.L\"}, 1} }" % path_tag)
    src.append("func GenId[E any](e E) string { type L struct{ v E }; _ = L{e}; return \"%s.GenId\" }" % path_tag)
    src.append("func GenLocal[E any]() any { type L struct{ v E }; return L{} }")
    src.append("// Box returns its argument as an interface: the dynamic type must be the instantiating type argument\nfunc Box[E any](e E) any { return e }\ntype Cell[E any] struct{ V E }\nfunc (c Cell[E]) Get() any { return c.V }")
    src.append("type Base struct{ Id int }\nfunc (b *Base) ID() int { return b.Id }\nfunc (b Base) Sum() int { return b.Id + 1000 }\ntype EA struct { Pad [3]int; Base }\ntype EB struct { Base; Pad [3]int }")
    src.append("var Init1 = func() string { return func() string { return \"%s.Init1\" }() }()" % path_tag)
    src.append("var initTrace string\nfunc init() { initTrace += func() string { return \"%s.init#1;\" }() }\nfunc init() { initTrace += func() string { return \"%s.init#2;\" }() }\nfunc InitTrace() string { return initTrace }" % (path_tag, path_tag))
    return "\n".join(src) + "\n"


def main_src():
    m = []
    c = 0
    def case(expr):
        nonlocal c
        c += 1
        m.append("\tcases = append(cases, func() { emit(\"n%03d\", %s) })" % (c, expr))
    for pk in ("xt", "yt"):
        for depth in range(4):
            case("%s.T{}.Who%d()" % (pk, depth))
            case("(&%s.T{}).PWho%d()" % (pk, depth))
            case("%s.U{}.Who%d()" % (pk, depth))
            case("%s.G[int]{}.Who%d()" % (pk, depth))
            case("%s.G[string]{}.Who%d()" % (pk, depth))
            case("%s.G[%s.T]{}.Who%d()" % (pk, pk, depth))
            case("%s.Free%d()" % (pk, depth))
        case("%s.Global" % pk)
        case("%s.Init1" % pk)
        case("%s.InitTrace()" % pk)
        case("%s.Local1().M() + \"|\" + %s.Local2().M()" % (pk, pk))
        case("%s.GenId(1) + %s.GenId(\"s\") + %s.GenId(localA{}) + %s.GenId([]%s.T{})" % (pk, pk, pk, pk, pk))
    # method values / expressions on same-named types of two packages, taken in main
    case("func() string { f, g := xt.T{}.Who, yt.T{}.Who; return f() + \"|\" + g() + \"|\" + f() }()")
    case("func() string { f, g := xt.T.Who, yt.T.Who; return f(xt.T{}) + \"|\" + g(yt.T{}) }()")
    case("func() string { f, g := (*xt.T).PWho0, (*yt.T).PWho0; return f(&xt.T{}) + \"|\" + g(&yt.T{}) }()")
    case("func() string { var i, j xt.I = xt.T{}, xt.U{}; return i.Who() + \"|\" + j.Who() }()")
    case("func() string { f, g := xt.U{}.Who, xt.T{}.Who; return f() + \"|\" + g() }()")
    # promoted methods through embedding in main-local types with equal names
    case("promoted1() + \"|\" + promoted2()")
    # generic functions of main instantiated with same-named local types of two functions and with types of other packages
    case("gen1() + \"|\" + gen2()")
    case("ident[xt.T](xt.T{N: 1}) + \"|\" + ident[yt.T](yt.T{N: 2}) + \"|\" + ident[alias](3) + \"|\" + ident[[]int](nil) + \"|\" + ident[struct{ A int }](struct{ A int }{4})")
    case("lib.UseBoth()")
    case("btoa(any(xt.GenLocal[int]()) == any(xt.GenLocal[int]())) + btoa(any(xt.GenLocal[int]()) == any(yt.GenLocal[int]())) + btoa(any(lib.XtGenLocalInt()) == any(xt.GenLocal[int]()))")
    # generic instances whose type arguments are composite types over same-named local types of two functions
    case("localArgs1() + \"|\" + localArgs2()")
    # method expressions reaching one declared method through different receiver types (promotion, value vs pointer form)
    for pk in ("xt", "yt"):
        case("func() string { f, g := (*%s.EA).ID, (*%s.EB).ID; a, b := &%s.EA{Base: %s.Base{Id: 7}}, &%s.EB{Base: %s.Base{Id: 9}}; return itoa(int64(f(a))) + \"|\" + itoa(int64(g(b))) + \"|\" + itoa(int64(f(a))) }()" % (pk, pk, pk, pk, pk, pk))
        case("func() string { f, g := %s.Base.Sum, (*%s.Base).Sum; v := %s.Base{Id: 5}; return itoa(int64(f(v))) + \"|\" + itoa(int64(g(&v))) }()" % (pk, pk, pk))
        case("func() string { f, g := %s.EA.Sum, %s.EB.Sum; return itoa(int64(f(%s.EA{Base: %s.Base{Id: 1}}))) + \"|\" + itoa(int64(g(%s.EB{Base: %s.Base{Id: 2}}))) }()" % (pk, pk, pk, pk, pk, pk))
        case("func() string { a, b := &%s.EA{Base: %s.Base{Id: 3}}, &%s.EB{Base: %s.Base{Id: 4}}; f, g := a.ID, b.ID; return itoa(int64(f())) + \"|\" + itoa(int64(g())) }()" % (pk, pk, pk, pk))
    # closures in init / package-level initialisers of main
    case("mainInit + \"|\" + mainVar")
    src = PRELUDE.replace('import (\n\t"os"\n\t"unsafe"\n)', 'import (\n\t"os"\n\t"unsafe"\n\n\t"vt/lib"\n\txt "vt/x/t"\n\tyt "vt/y/t"\n)')
    src += r'''
var cases []func()

type alias = int
type localA struct{}

func ident[E any](e E) string {
	switch v := any(e).(type) {
	case xt.T:
		return "xt.T" + itoa(int64(v.N))
	case yt.T:
		return "yt.T" + itoa(int64(v.N))
	case int:
		return "int" + itoa(int64(v))
	case []int:
		return "[]int"
	case struct{ A int }:
		return "struct" + itoa(int64(v.A))
	}
	return "?"
}


func localArgs1() string {
	type L struct{ a int }
	r := ""
	{
		v := make(chan L)
		_, ok := xt.Box(v).(chan L)
		_, ok2 := xt.Cell[chan L]{V: v}.Get().(chan L)
		r += btoa(ok) + btoa(ok2)
	}
	{
		v := make(<-chan L)
		_, ok := xt.Box(v).(<-chan L)
		r += btoa(ok)
	}
	{
		v := []chan L{nil}
		_, ok := xt.Box(v).([]chan L)
		r += btoa(ok)
	}
	{
		v := []L{{1}}
		_, ok := xt.Box(v).([]L)
		_, ok2 := xt.Cell[[]L]{V: v}.Get().([]L)
		r += btoa(ok) + btoa(ok2)
	}
	{
		v := &L{2}
		_, ok := xt.Box(v).(*L)
		r += btoa(ok)
	}
	{
		v := map[string]L{}
		_, ok := xt.Box(v).(map[string]L)
		r += btoa(ok)
	}
	{
		v := [2]L{}
		_, ok := xt.Box(v).([2]L)
		r += btoa(ok)
	}
	{
		v := func(L) {}
		_, ok := xt.Box(v).(func(L))
		r += btoa(ok)
	}
	{
		v := struct{ f L }{}
		_, ok := xt.Box(v).(struct{ f L })
		r += btoa(ok)
	}
	return r
}

func localArgs2() string {
	type L struct{ b string }
	r := ""
	{
		v := make(chan L)
		_, ok := xt.Box(v).(chan L)
		_, ok2 := xt.Cell[chan L]{V: v}.Get().(chan L)
		r += btoa(ok) + btoa(ok2)
	}
	{
		v := make(<-chan L)
		_, ok := xt.Box(v).(<-chan L)
		r += btoa(ok)
	}
	{
		v := []chan L{nil}
		_, ok := xt.Box(v).([]chan L)
		r += btoa(ok)
	}
	{
		v := []L{{"x"}}
		_, ok := xt.Box(v).([]L)
		_, ok2 := xt.Cell[[]L]{V: v}.Get().([]L)
		r += btoa(ok) + btoa(ok2)
	}
	{
		v := &L{"y"}
		_, ok := xt.Box(v).(*L)
		r += btoa(ok)
	}
	{
		v := map[string]L{}
		_, ok := xt.Box(v).(map[string]L)
		r += btoa(ok)
	}
	{
		v := [2]L{}
		_, ok := xt.Box(v).([2]L)
		r += btoa(ok)
	}
	{
		v := func(L) {}
		_, ok := xt.Box(v).(func(L))
		r += btoa(ok)
	}
	{
		v := struct{ f L }{}
		_, ok := xt.Box(v).(struct{ f L })
		r += btoa(ok)
	}
	return r
}

type who interface{ Who() string }

func show[E who](e E) string { return func() string { return "show:" + e.Who() }() }

func gen1() string {
	type L struct{ xt.T }
	return show(L{})
}

func gen2() string {
	type L struct{ yt.U }
	return show(L{})
}

func promoted1() string {
	type P struct{ xt.T }
	f := P{}.Who
	return f()
}

func promoted2() string {
	type P struct{ yt.T }
	f := P{}.Who
	return f()
}

var mainInit string
var mainVar = func() string { return func() string { return "main.var" }() }()

func init() { mainInit = func() string { return func() string { return "main.init" }() }() }

func main() {
''' + "\n".join(m) + "\n\trunAll(cases)\n}\n"
    return src


LIB = '''package lib

import (
	xt "vt/x/t"
	yt "vt/y/t"
)

// the same generic instances as package main uses, emitted a second time from here
func UseBoth() string {
	return xt.G[int]{}.Who2() + "|" + yt.G[int]{}.Who2() + "|" + xt.GenId(1) + "|" + yt.GenId("s") + "|" + xt.G[xt.T]{}.Who1()
}

func XtGenLocalInt() any { return xt.GenLocal[int]() }
'''


def programs(tier):
    return {"names": {"main.go": main_src(), "x/t/t.go": pkg_t("x/t"), "y/t/t.go": pkg_t("y/t"), "lib/lib.go": LIB}}


if __name__ == "__main__":
    import os
    for k, files in programs("quick").items():
        d = os.path.join(sys.argv[1], k)
        for rel, txt in files.items():
            os.makedirs(os.path.dirname(os.path.join(d, rel)), exist_ok=True)
            open(os.path.join(d, rel), "w").write(txt)
        open(os.path.join(d, "go.mod"), "w").write("module vt\n\ngo 1.24\n")
