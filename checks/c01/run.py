#!/usr/bin/env python3
"""C01: core-language program families (control skeletons of depth 2, calls/values, data semantics), llgo vs go1.24.0 at O0 and O2,
single- and multi-package (thorough: also without GC)."""
import os, sys
sys.path.insert(0, "/verif/lib"); sys.path.insert(0, os.path.dirname(os.path.abspath(__file__)))
import diffcheck, gen
diffcheck.main("C01", "exploration", gen.programs,
    rule="G1: every outer x inner pair of 20 control constructs (if/else-if, 3-clause/cond for, range over int/slice/*array/string/map/closed chan/func iterators, expression/tagless/type "
         "switch with fallthrough and default in the middle, labelled break/continue, goto, closure call, select-with-default, defer in a loop) x 5 leaves (accumulate, break, continue, "
         "early return, run-time panic), each executed for x in {-1,0,1} with a full trace; G2: 14 callee kinds (func, closures capturing a variable modified afterwards / a per-iteration "
         "loop variable / a parameter, method values and expressions on T and *T, interface method, methods promoted through value and pointer embedding, generic function / explicit instance / "
         "method of a generic type) x 6 call forms (direct, through a variable, as argument, twice, deferred, go+join), defined in the same package and in another package; "
         "G3: 15 value types (all sizes, [0]int, struct{}, pointers, slices, interfaces, named, generic instances, nested literals): copy, by-value pass/return, tuple assignment incl. "
         "side-effecting index operands, aliasing through &a[i] / &s.f, array vs slice copy, boxing, zero values, ==. case = one function/driver; non-trivial = distinct traces",
    samples=["rangestr.rangefunc2.ret [ca=97 gb0a=1 gb0b=2 gb0c=3 early=16 ret16] ..."],
    assumptions=["small-scope: constructs interact at nesting depth <= 2", "uncaught panics are observed through a recover in the driver (exit status of an uncaught panic is covered by C03/C04 crash isolation)"],
    thorough_backends=(("A", ()), ("C", ()), ("A", ("nogc",)), ("C", ("nogc",))), workers=8)
