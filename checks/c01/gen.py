"""C01 generator: three exhaustively enumerated program families over the core language (control skeletons, calls and values,
data semantics); output and termination must equal the reference toolchain's at O0 and O2, with and without GC, single- and multi-package."""
import itertools, sys
sys.path.insert(0, "/verif/lib")
from prelude import PRELUDE

HELPERS = r'''
var cases []func()
var tr []byte

func t(s string)        { tr = append(tr, s...); tr = append(tr, ' ') }
func ti(s string, v int) { tr = append(tr, s...); tr = append(tr, itoa(int64(v))...); tr = append(tr, ' ') }

func two(yield func(int) bool) {
	if !yield(10) {
		return
	}
	yield(20)
}

func pairs(yield func(int, string) bool) {
	if !yield(1, "a") {
		return
	}
	if !yield(2, "b") {
		return
	}
	yield(3, "c")
}

func mkchan() chan int {
	ch := make(chan int, 2)
	ch <- 7
	ch <- 8
	close(ch)
	return ch
}

var arr3 = [3]int{4, 5, 6}

// run f(x) for x in -1,0,1 and record trace + how it ended
func drive(id string, f func(x int) int) {
	cases = append(cases, func() {
		out := ""
		for x := -1; x <= 1; x++ {
			tr = tr[:0]
			res := func() (r string) {
				defer func() {
					if v := recover(); v != nil {
						r = "panic"
					}
				}()
				return "ret" + itoa(int64(f(x)))
			}()
			out += "[" + string(tr) + res + "] "
		}
		emit(id, out)
	})
}
'''

# ---------------------------------------------------------------- G1 control skeletons
# each construct: (name, provides_loop, template with %(B)s inner block, %(n)s unique suffix)
CONSTRUCTS = [
    ("seq", False, 't("s%(n)s"); %(B)s; t("e%(n)s")'),
    ("ifelse", False, 'if x > 0 { t("p%(n)s"); %(B)s } else if x < 0 { t("n%(n)s") } else { t("z%(n)s"); %(B)s }'),
    ("for3", True, 'for i%(n)s := 0; i%(n)s < 3; i%(n)s++ { ti("i%(n)s=", i%(n)s); %(B)s }'),
    ("forcond", True, 'for c%(n)s := 0; c%(n)s < 2; { c%(n)s++; %(B)s }'),
    ("rangeint", True, 'for i%(n)s := range 3 { ti("r%(n)s=", i%(n)s); %(B)s }'),
    ("rangeslice", True, 'for i%(n)s, v%(n)s := range []int{5, 6} { ti("k%(n)s=", i%(n)s*10+v%(n)s); %(B)s }'),
    ("rangearrptr", True, 'for i%(n)s, v%(n)s := range &arr3 { ti("a%(n)s=", i%(n)s*10+v%(n)s); %(B)s }'),
    ("rangestr", True, 'for i%(n)s, r%(n)s := range "a\\u00e9z" { ti("c%(n)s=", i%(n)s*1000+int(r%(n)s)); %(B)s }'),
    ("rangemap", True, 'for k%(n)s, v%(n)s := range map[string]int{"k": 1} { ti("m%(n)s"+k%(n)s+"=", v%(n)s); %(B)s }'),
    ("rangechan", True, 'for v%(n)s := range mkchan() { ti("h%(n)s=", v%(n)s); %(B)s }'),
    ("rangefunc", True, 'for v%(n)s := range two { ti("f%(n)s=", v%(n)s); %(B)s }'),
    ("rangefunc2", True, 'for k%(n)s, v%(n)s := range pairs { ti("g%(n)s"+v%(n)s+"=", k%(n)s); %(B)s }'),
    ("switch", False, 'switch x + 1 { case 0: t("c0%(n)s"); fallthrough; default: t("d%(n)s"); %(B)s; case 1: t("c1%(n)s"); case 2, 3: t("c2%(n)s"); %(B)s }'),
    ("tagless", False, 'switch { case x < 0: t("lt%(n)s"); %(B)s; case x == 0: t("eq%(n)s"); fallthrough; case x > 5: t("big%(n)s"); default: t("df%(n)s"); %(B)s }'),
    ("typeswitch", False, 'switch v%(n)s := anyOf(x).(type) { case int: ti("int%(n)s=", v%(n)s); %(B)s; case string: t("str%(n)s" + v%(n)s); case nil: t("nil%(n)s"); %(B)s; default: t("oth%(n)s") }'),
    ("labelled", True, 'L%(n)s: for i%(n)s := 0; i%(n)s < 3; i%(n)s++ { for j%(n)s := 0; j%(n)s < 3; j%(n)s++ { if j%(n)s == 1 { continue L%(n)s }; if i%(n)s == 2 { break L%(n)s }; ti("l%(n)s=", i%(n)s*10+j%(n)s); %(B)s } }'),
    ("goto", False, 'g%(n)s := 0; G%(n)s: if g%(n)s < 2 { g%(n)s++; ti("g%(n)s=", g%(n)s); %(B)s; goto G%(n)s }'),
    ("closure", False, 'func() { t("cl%(n)s"); %(B)s }()'),
    ("selectdef", False, 'ch%(n)s := mkchan(); select { case v%(n)s := <-ch%(n)s: ti("sel%(n)s=", v%(n)s); %(B)s; default: t("def%(n)s") }'),
    ("deferloop", False, 'func() { for d%(n)s := 0; d%(n)s < 2; d%(n)s++ { defer ti("df%(n)s=", d%(n)s+acc) }; %(B)s }()'),
]
LEAVES = [
    ("acc", "acc = acc*3 + x + 1; ti(\"acc=\", acc)", False),
    ("brk", "if acc > 4 { t(\"brk\"); break }; acc += 2", True),      # needs an enclosing loop / switch
    ("cont", "acc++; if acc%2 == 0 { t(\"cont\"); continue }; ti(\"odd=\", acc)", True),
    ("ret", "acc += 5; if acc > 12 { ti(\"early=\", acc); return acc }", False),
    ("panic", "acc += 4; if acc > 9 && x == 1 { t(\"boom\"); var m map[int]int; m[acc] = 1 }", False),
]


def g1_functions(depth):
    funcs = []
    for oi, (on, oloop, ot) in enumerate(CONSTRUCTS):
        inners = [(None, False, "%(B)s")] + (CONSTRUCTS if depth >= 2 else [])
        for ii, (inn, iloop, it) in enumerate(inners):
            for ln, lt, needs_loop in LEAVES:
                in_closure = (inn in ("closure", "deferloop")) or on in ("closure", "deferloop")
                loop_ok = iloop or (inn is None and oloop) or (inn in ("switch", "tagless", "typeswitch", "selectdef") and ln == "brk") or \
                    (inn is None and on in ("switch", "tagless", "typeswitch", "selectdef") and ln == "brk") or \
                    (oloop and inn not in ("closure", "deferloop"))
                if needs_loop and not loop_ok:
                    continue
                if ln == "ret" and in_closure:
                    continue  # a return inside the closure would need a result: covered by the closure construct's own leaf forms
                if ln == "cont" and not (iloop or ((inn is None or inn not in ("closure", "deferloop")) and oloop)):
                    continue
                if needs_loop and inn in ("closure", "deferloop") and not False:
                    continue
                if needs_loop and inn is None and on in ("closure", "deferloop"):
                    continue
                # the outer template may use its block several times: render the inner construct with a fresh suffix each time (labels are function-scoped)
                parts = ot.split("%(B)s")
                body = parts[0] % dict(n="a")
                for pi_, part in enumerate(parts[1:]):
                    inner = it % dict(B=lt, n="b%d" % pi_) if inn else lt
                    body += inner + part % dict(n="a")
                name = "%s.%s.%s" % (on, inn or "-", ln)
                funcs.append((name, "func(x int) int {\n\t\tacc := 1\n\t\t%s\n\t\treturn acc\n\t}" % body))
    return funcs


def prog_g1(tier):
    fs = g1_functions(2)
    progs = {}
    per = 400
    for pi in range(0, len(fs), per):
        src = PRELUDE + HELPERS + "\nfunc anyOf(x int) any {\n\tswitch x {\n\tcase -1:\n\t\treturn \"s\"\n\tcase 0:\n\t\treturn nil\n\t}\n\treturn x + 41\n}\n\nfunc main() {\n"
        for name, fn in fs[pi:pi + per]:
            src += "\tdrive(\"%s\", %s)\n" % (name, fn)
        src += "\trunAll(cases)\n}\n"
        progs["ctl%02d" % (pi // per)] = src
    return progs


# ---------------------------------------------------------------- G2 calls and values
LIB = r'''
type T struct{ N int }

func (v T) Val(a int, s string) (int, string)   { return v.N + a, s + "v" }
func (p *T) Ptr(a int, s string) (int, string)  { p.N++; return p.N + a, s + "p" }

type I interface{ Val(a int, s string) (int, string) }

type Inner struct{ T }
type Outer struct{ Inner }
type OuterP struct{ *Inner }

type G[E any] struct{ e E }

func (g G[E]) Get(a int, s string) (int, string) { return a + 1, s + "g" }

func Plain(a int, s string) (int, string) { return a * 2, s + "f" }

func Gen[E any](e E, a int, s string) (int, string) { return a + 3, s + "G" }

func Variadic(pre string, xs ...int) (int, string) {
	sum := 0
	for _, x := range xs {
		sum += x
	}
	return sum*10 + len(xs), pre
}

func Named(a int) (res int, err string) {
	defer func() { res += 100 }()
	res = a
	return res + 1, "n"
}
'''

KINDS = [
    ("func", "f := %(P)sPlain"),
    ("closure-modified-after", "k := 5; f := func(a int, s string) (int, string) { return a + k, s + \"c\" }; k = 50"),
    ("closure-loopvar", "var fs []func(int, string) (int, string); for i := 0; i < 3; i++ { fs = append(fs, func(a int, s string) (int, string) { return a + i*100, s + \"l\" }) }; f := fs[1]"),
    ("closure-param", "f := func(p int) func(int, string) (int, string) { return func(a int, s string) (int, string) { p++; return a + p, s + \"q\" } }(7)"),
    ("method-value-T", "tv := %(P)sT{N: 3}; f := tv.Val; tv.N = 300"),
    ("method-value-ptrT", "tp := &%(P)sT{N: 3}; f := tp.Ptr; tp.N = 30"),
    ("method-expr", "f := func(a int, s string) (int, string) { return %(P)sT.Val(%(P)sT{N: 9}, a, s) }"),
    ("method-expr-ptr", "tq := &%(P)sT{N: 1}; g := (*%(P)sT).Ptr; f := func(a int, s string) (int, string) { return g(tq, a, s) }"),
    ("iface-method", "var iv %(P)sI = %(P)sT{N: 4}; f := iv.Val"),
    ("promoted-value", "ov := %(P)sOuter{}; ov.N = 6; f := ov.Val"),
    ("promoted-ptr", "op := %(P)sOuterP{&%(P)sInner{}}; op.N = 8; f := op.Ptr"),
    ("generic-func", "f := func(a int, s string) (int, string) { return %(P)sGen([]string{\"x\"}, a, s) }"),
    ("generic-func-inst", "f := %(P)sGen[float64]; ff := f; _ = ff; f2 := func(a int, s string) (int, string) { return f(1.5, a, s) }; f3 := f2; _ = f3"),
    ("generic-method", "gv := %(P)sG[string]{}; f := gv.Get"),
]
FORMS = [
    ("direct", "r, s := f(1, \"x\"); ti(\"r=\", r); t(s)"),
    ("via-var", "h := f; r, s := h(2, \"y\"); ti(\"r=\", r); t(s)"),
    ("as-arg", "r, s := apply(f, 3); ti(\"r=\", r); t(s)"),
    ("twice", "r1, _ := f(1, \"a\"); r2, s := f(1, \"b\"); ti(\"r=\", r1*1000+r2); t(s)"),
    ("defer", "func() { defer func() { r, s := f(4, \"d\"); ti(\"r=\", r); t(s) }(); t(\"body\") }()"),
    ("go-join", "done := make(chan int); go func() { r, _ := f(5, \"g\"); done <- r }(); ti(\"r=\", <-done)"),
]


def prog_g2(split):
    P = "lib." if split else ""
    main = ""
    for kn, ksrc in KINDS:
        for fn, fsrc in FORMS:
            ks = ksrc % dict(P=P)
            if kn == "generic-func-inst":
                ks = ks + "; f4 := f3; _ = f4"
                call = fsrc.replace("f(", "f3(").replace("h := f;", "h := f3;").replace("apply(f,", "apply(f3,")
            else:
                call = fsrc
            main += "\tdrive(\"%s/%s\", func(x int) int {\n\t\t%s\n\t\t%s\n\t\treturn 0\n\t})\n" % (kn, fn, ks, call)
    extra = "\tdrive(\"variadic\", func(x int) int {\n\t\ta, s := %sVariadic(\"p\")\n\t\tb, _ := %sVariadic(\"q\", 1, 2, 3)\n\t\txs := []int{4, 5}\n\t\tc, _ := %sVariadic(\"r\", xs...)\n\t\tti(\"v=\", a*1000000+b*1000+c)\n\t\tt(s)\n\t\treturn 0\n\t})\n" % (P, P, P)
    extra += "\tdrive(\"named-result\", func(x int) int {\n\t\tr, e := %sNamed(x)\n\t\tti(\"n=\", r)\n\t\tt(e)\n\t\treturn r\n\t})\n" % P
    apply = "\nfunc apply(f func(int, string) (int, string), a int) (int, string) { return f(a, \"z\") }\n"
    if split:
        src = PRELUDE.replace('import (\n\t"os"\n\t"unsafe"\n)', 'import (\n\t"os"\n\t"unsafe"\n\t"vt/lib"\n)') + HELPERS + apply + "\nfunc main() {\n" + main + extra + "\trunAll(cases)\n}\n"
        return {"main.go": src, "lib/lib.go": "package lib\n" + LIB}
    return {"main.go": PRELUDE + HELPERS + LIB + apply + "\nfunc main() {\n" + main + extra + "\trunAll(cases)\n}\n"}


# ---------------------------------------------------------------- G3 data semantics
# name -> (type, mk(k) expr, show(v) expr producing string, comparable)
DTYPES = [
    ("int8", "int8", "int8(k)", "itoa(int64(v))", True),
    ("int64", "int64", "int64(k) << 33", "itoa(v)", True),
    ("uint32", "uint32", "uint32(k) * 0x10001", "utoa(uint64(v))", True),
    ("float64", "float64", "float64(k) + 0.5", "f64bits(v)", True),
    ("string", "string", "strs[k%4]", "v", True),
    ("arr2", "[2]int", "[2]int{k, k * 2}", "itoa(int64(v[0])) + \",\" + itoa(int64(v[1]))", True),
    ("arr0", "[0]int", "[0]int{}", "\"-\"", True),
    ("small", "struct{ a int8; b int64 }", "struct{ a int8; b int64 }{int8(k), int64(k) * 7}", "itoa(int64(v.a)) + \",\" + itoa(v.b)", True),
    ("empty", "struct{}", "struct{}{}", "\"{}\"", True),
    ("ptr", "*int", "&ints[k%4]", "itoa(int64(*v))", True),
    ("slice", "[]int", "[]int{k, k + 1}", "itoa(int64(len(v))) + \":\" + itoa(int64(v[0]))", False),
    ("iface", "any", "anyv(k)", "showAny(v)", True),
    ("named", "Celsius", "Celsius(k) * 2", "itoa(int64(v))", True),
    ("generic", "Pair[int8, string]", "Pair[int8, string]{int8(k), strs[k%4]}", "itoa(int64(v.A)) + v.B", True),
    ("nested", "struct{ p Pair[int, [2]int]; s []string }", "struct{ p Pair[int, [2]int]; s []string }{Pair[int, [2]int]{k, [2]int{k, -k}}, []string{strs[k%4]}}", "itoa(int64(v.p.A)) + \",\" + itoa(int64(v.p.B[1])) + \",\" + v.s[0]", False),
]

G3_COMMON = r'''
var strs = [4]string{"s0", "s1", "s2", "s3"}
var ints = [4]int{10, 11, 12, 13}

type Celsius int
type Pair[A, B any] struct {
	A A
	B B
}

func anyv(k int) any {
	switch k % 3 {
	case 0:
		return k
	case 1:
		return strs[k%4]
	}
	return [2]int{k, k}
}

func showAny(v any) string {
	switch x := v.(type) {
	case int:
		return "i" + itoa(int64(x))
	case string:
		return "s" + x
	case [2]int:
		return "a" + itoa(int64(x[0]))
	case nil:
		return "nil"
	}
	return "?"
}

var order []byte

func ix(i int) int { order = append(order, byte('0'+i)); return i }
'''


def prog_g3():
    src = PRELUDE + HELPERS + G3_COMMON
    main = ""
    for name, ty, mk, show, cmp in DTYPES:
        T = "T_" + name
        src += "\ntype %s = %s\n\nfunc mk_%s(k int) %s { return %s }\nfunc sh_%s(v %s) string { return %s }\n//go:noinline\nfunc byval_%s(v %s) %s { v2 := v; return v2 }\n" % (T, ty, name, T, mk, name, T, show, name, T, T)
        d = dict(n=name, T=T)
        body = """
		a, b, c := mk_%(n)s(1), mk_%(n)s(2), mk_%(n)s(3)
		var z %(T)s
		_ = z
		cp := a
		t("copy=" + sh_%(n)s(cp))
		t("ret=" + sh_%(n)s(byval_%(n)s(b)))
		arr := [3]%(T)s{a, b, c}
		sl := []%(T)s{a, b, c}
		st := struct{ f %(T)s; g int }{c, 1}
		m := map[string]%(T)s{"k": a}
		arr[0], sl[1], st.f, m["k"] = c, a, b, b
		t("elems=" + sh_%(n)s(arr[0]) + "|" + sh_%(n)s(sl[1]) + "|" + sh_%(n)s(st.f) + "|" + sh_%(n)s(m["k"]))
		a, b = b, a
		t("swap=" + sh_%(n)s(a) + "|" + sh_%(n)s(b))
		a, b, c = b, c, a
		t("rot=" + sh_%(n)s(a) + "|" + sh_%(n)s(b) + "|" + sh_%(n)s(c))
		order = order[:0]
		sl[ix(0)], sl[ix(2)] = sl[ix(2)], sl[ix(0)]
		t("idxswap=" + sh_%(n)s(sl[0]) + "|" + sh_%(n)s(sl[2]) + "|" + string(order))
		pa := &arr[1]
		ps := &st.f
		*pa, *ps = mk_%(n)s(3), mk_%(n)s(1)
		t("alias=" + sh_%(n)s(arr[1]) + "|" + sh_%(n)s(st.f))
		arr2 := arr
		arr2[2] = mk_%(n)s(2)
		t("arrcopy=" + sh_%(n)s(arr[2]) + "|" + sh_%(n)s(arr2[2]))
		sl2 := sl
		sl2[0] = mk_%(n)s(1)
		t("slalias=" + sh_%(n)s(sl[0]))
		var ifc any = a
		if got, ok := ifc.(%(T)s); ok {
			t("box=" + sh_%(n)s(got))
		}
		lit := []struct{ v %(T)s; w [2]%(T)s }{{v: a}, {w: [2]%(T)s{1: b}}}
		t("lit=" + sh_%(n)s(lit[0].v) + "|" + sh_%(n)s(lit[1].w[1]))
""" % d
        if cmp:
            body += "\t\tt(\"eq=\" + btoa(mk_%(n)s(2) == mk_%(n)s(2)) + btoa(mk_%(n)s(1) == mk_%(n)s(2)) + btoa(any(mk_%(n)s(1)) == any(mk_%(n)s(1))))\n" % d
        if name not in ("slice", "nested", "ptr", "iface"):
            body += "\t\tt(\"zero=\" + sh_%(n)s(z))\n" % d
        main += "\tdrive(\"data/%s\", func(x int) int {%s\t\treturn 0\n\t})\n" % (name, body)
    src += "\nfunc main() {\n" + main + "\trunAll(cases)\n}\n"
    return src


# ---------------------------------------------------------------- G4 closures nested in same-named methods of several receiver types
G4_TYPES = [("A", "struct{ N int }", "(v A)", "v.N", "A{N: 1}"), ("B", "struct{ N int }", "(p *B)", "p.N", "(&B{N: 2})"),
            ("C", "int", "(v C)", "int(v)", "C(3)"), ("D[E any]", "struct{ e E; N int }", "(g D[E])", "g.N", "D[string]{N: 4}")]


def g4_method(tn, recv, field, depth, ordinal, cap):
    """method M<depth><ordinal><cap>: a closure nested `depth` deep, the `ordinal`-th closure of its level, capturing cap"""
    tag = tn.split("[")[0]
    uses = {"recv": "itoa(int64(%s))" % field, "local": "itoa(int64(loc))", "both": "itoa(int64(%s*100+loc))" % field}[cap]
    inner = 'return "%s/d%d:" + %s + ":" + itoa(int64(a))' % (tag, depth, uses)
    for d in range(depth, 0, -1):
        pre = "sib := func() int { return %d }; _ = sib(); " % d if ordinal == 2 else ""
        inner = "%sf%d := func() string { %s }; loc += %d; return f%d()" % (pre, d, inner, d, d)
    return "func %s M%d%d%s(a int) string { loc := 10; %s }" % (recv, depth, ordinal, cap, inner)


def g4_lib():
    src = ""
    for tn, under, recv, field, mk in G4_TYPES:
        src += "type %s %s\n" % (tn, under)
    for depth in (1, 2, 3):
        for ordinal in (1, 2):
            for cap in ("recv", "local", "both"):
                for tn, under, recv, field, mk in G4_TYPES:
                    src += g4_method(tn, recv, field, depth, ordinal, cap) + "\n"
    return src


def prog_g4(split):
    P = "lib." if split else ""
    main = ""
    for depth in (1, 2, 3):
        for ordinal in (1, 2):
            for cap in ("recv", "local", "both"):
                m = "M%d%d%s" % (depth, ordinal, cap)
                calls = " + \"|\" + ".join("%s%s.%s(x)" % (P if not mk.startswith("(&") else "", mk if not mk.startswith("(&") else "(&%sB{N: 2})" % P, m) for tn, under, recv, field, mk in G4_TYPES)
                vals = " + \"|\" + ".join("func() string { f := %s%s.%s; return f(x + 1) }()" % (P if not mk.startswith("(&") else "", mk if not mk.startswith("(&") else "(&%sB{N: 2})" % P, m) for tn, under, recv, field, mk in G4_TYPES)
                main += "\tdrive(\"nest/%s\", func(x int) int {\n\t\tt(%s)\n\t\tt(%s)\n\t\treturn 0\n\t})\n" % (m, calls, vals)
    lib = g4_lib()
    if split:
        src = PRELUDE.replace('import (\n\t"os"\n\t"unsafe"\n)', 'import (\n\t"os"\n\t"unsafe"\n\t"vt/lib"\n)') + HELPERS + "\nfunc main() {\n" + main + "\trunAll(cases)\n}\n"
        libsrc = "package lib\n\n" + "func itoa(v int64) string {\n\tif v == 0 {\n\t\treturn \"0\"\n\t}\n\tneg := v < 0\n\tif neg {\n\t\tv = -v\n\t}\n\tvar b [24]byte\n\ti := len(b)\n\tfor v > 0 {\n\t\ti--\n\t\tb[i] = byte('0' + v%10)\n\t\tv /= 10\n\t}\n\tif neg {\n\t\ti--\n\t\tb[i] = '-'\n\t}\n\treturn string(b[i:])\n}\n\n" + lib
        return {"main.go": src, "lib/lib.go": libsrc}
    return {"main.go": PRELUDE + HELPERS + lib + "\nfunc main() {\n" + main + "\trunAll(cases)\n}\n"}


# ---------------------------------------------------------------- G5 range forms whose body changes what is ranged over
# every body is written so that the trace does not depend on map iteration order
G5_CASES = [
    ("map-delete-all-others", 'm := map[int]int{}; for i := 1; i <= 8; i++ { m[i] = i * i }; n := 0; for k := range m { n++; for j := 1; j <= 8; j++ { if j != k { delete(m, j) } } }; ti("iters=", n); ti("len=", len(m))'),
    ("map-delete-partner", 'm := map[int]string{}; for i := 0; i < 12; i++ { m[i] = "v" }; n, pairs := 0, 0; for k := range m { n++; pairs += 1 << (k >> 1); delete(m, k^1) }; ti("iters=", n); ti("pairs=", pairs); ti("len=", len(m))'),
    ("map-delete-current", 'm := map[string]int{"a": 1, "b": 2, "c": 3, "d": 4}; sum := 0; for k, v := range m { sum += v; delete(m, k) }; ti("sum=", sum); ti("len=", len(m))'),
    ("map-delete-deps", 'm := map[int][]int{1: {2, 3}, 2: {4}, 3: {4}, 4: nil, 5: {1}}; n := 0; for k := range m { n++; for kk, ds := range m { if kk != k { _ = ds; delete(m, kk) } } }; ti("iters=", n)'),
    ("map-clear-in-body", 'm := map[int]int{1: 1, 2: 2, 3: 3}; n := 0; for range m { n++; clear(m) }; ti("iters=", n)'),
    ("map-update-values", 'm := map[int]int{1: 1, 2: 2, 3: 3}; sum := 0; for k, v := range m { m[k] = v * 10; sum += v }; ti("sum=", sum); ti("m=", m[1]+m[2]+m[3])'),
    ("map-reassign-var", 'm := map[int]int{1: 1, 2: 2}; n := 0; for k := range m { n += k; m = nil }; ti("n=", n); ti("nil=", len(m))'),
    ("map-nil", 'var m map[string]int; n := 0; for range m { n++ }; ti("n=", n)'),
    ("map-keys-only-blank", 'm := map[int]bool{1: true, 2: true, 3: false}; n := 0; for _, v := range m { if v { n++ } }; for _ = range m { n += 10 }; ti("n=", n)'),
    ("map-struct-values-copy", 'type pt struct{ x, y int }; m := map[string]pt{"a": {1, 2}, "b": {3, 4}}; s := 0; for _, v := range m { v.x = 100; s += v.y }; ti("s=", s); ti("x=", m["a"].x+m["b"].x)'),
    ("slice-append-in-body", 's := []int{1, 2, 3}; n := 0; for i, v := range s { s = append(s, v*10); n += v; if i > 5 { break } }; ti("n=", n); ti("len=", len(s))'),
    ("slice-write-ahead", 's := []int{1, 2, 3, 4}; acc := 0; for i, v := range s { if i+1 < len(s) { s[i+1] = v * 2 }; acc = acc*10 + v }; ti("acc=", acc)'),
    ("slice-reslice", 's := []int{1, 2, 3, 4}; n := 0; for i := range s { s = s[:1]; n += i }; ti("n=", n); ti("len=", len(s))'),
    ("array-copy", 'a := [3]int{1, 2, 3}; acc := 0; for i, v := range a { a[2] = 100; acc = acc*10 + v + i }; ti("acc=", acc); ti("a2=", a[2])'),
    ("array-copy-struct-elems", 'type e struct{ f, g int }; a := [3]e{{1, 1}, {2, 2}, {3, 3}}; acc := 0; for i, v := range a { a[2].f = 100; a[(i+1)%3].g += 10; acc = acc*100 + v.f + v.g }; ti("acc=", acc); ti("a=", a[2].f+a[0].g)'),
    ("array-copy-nested", 'm := [3][2]int{{1, 2}, {3, 4}, {5, 6}}; acc := 0; for i, v := range m { m[2][1] = 60; m[(i+1)%3][0] += 7; acc = acc*100 + v[0] + v[1] }; ti("acc=", acc); ti("m=", m[2][1]+m[0][0])'),
    ("array-copy-reverse", 'a := [4]int{1, 2, 3, 4}; for i, v := range a { a[3-i] = v }; ti("a=", a[0]*1000+a[1]*100+a[2]*10+a[3])'),
    ("array-copy-of-field", 'type h struct{ arr [3]int }; s := h{[3]int{1, 2, 3}}; p := &s; acc := 0; for i, v := range p.arr { p.arr[2] = 50; s.arr[1] += 5; acc = acc*100 + v + i }; ti("acc=", acc)'),
    ("array-copy-global", 'arr3 = [3]int{4, 5, 6}; acc := 0; for _, v := range arr3 { arr3[2] = 9; acc = acc*10 + v }; arr3 = [3]int{4, 5, 6}; ti("acc=", acc)'),
    ("array-ptr-live", 'a := [3]int{1, 2, 3}; acc := 0; for i, v := range &a { a[2] = 7; acc = acc*10 + v + i }; ti("acc=", acc)'),
    ("array-index-only-no-copy", 'a := [3]int{1, 2, 3}; acc := 0; for i := range a { a[2] = 9; acc = acc*10 + a[i] }; ti("acc=", acc)'),
    ("string-reassign", 's := "h\\xffé世"; acc := 0; for i, r := range s { s = "zz"; acc += i*7 + int(r) }; ti("acc=", acc); t(s)'),
    ("int-modify-bound", 'n := 3; acc := 0; for i := range n { n = 10; acc = acc*10 + i }; ti("acc=", acc); ti("n=", n)'),
    ("int-modify-var", 'acc := 0; for i := range 4 { acc = acc*10 + i; i += 2 }; ti("acc=", acc)'),
    ("chan-close-later", 'ch := make(chan int, 4); ch <- 1; ch <- 2; acc := 0; for v := range ch { acc = acc*10 + v; if v == 2 { ch <- 5; close(ch) } }; ti("acc=", acc)'),
    ("func-break-nested", 'acc := 0; Outer: for a := range two { for b := range two { if b == 20 && a == 10 { continue Outer }; if a == 20 { break Outer }; acc = acc*100 + a + b } }; ti("acc=", acc)'),
    # (a defer inside a range-over-func body that writes a captured variable is left out: go1.24.0, the reference here, prints 0 where go1.26 and the spec give 2010)
    ("func-return-from-body", 'f := func() int { for k, v := range pairs { if k == 2 { return k*10 + len(v) } }; return -1 }; ti("r=", f())'),
    ("closure-per-iteration", 'var fs []func() int; for i, v := range []int{5, 6, 7} { fs = append(fs, func() int { return i*10 + v }) }; acc := 0; for _, f := range fs { acc = acc*100 + f() }; ti("acc=", acc)'),
    ("closure-per-iteration-map", 'm := map[int]int{1: 10, 2: 20, 3: 30}; var fs []func() int; for k, v := range m { fs = append(fs, func() int { return k*v }) }; acc := 0; for _, f := range fs { acc += f() }; ti("acc=", acc)'),
    ("long-loop-local-array", 'sum := 0; for i := 0; i < 1500000; i++ { var buf [64]int; j := (i + x) & 63; buf[j] = i; sum += buf[j] & 3 }; ti("sum=", sum)'),
    ("long-loop-index-of-result", 'sum := 0; for i := 0; i < 1500000; i++ { sum += get64()[(i+x)&63] }; ti("sum=", sum)'),
    ("long-loop-array-value-copy", 'p := &[64]int{1: 3}; sum := 0; for i := 0; i < 1500000; i++ { v := *p; if i&1 == 0 { p[1]++; sum += v[(i&1)+1] & 7 } }; ti("sum=", sum)'),
    ("closure-3clause-loopvar", 'var fs []func() int; for i := 0; i < 3; i++ { fs = append(fs, func() int { i += 10; return i }) }; acc := 0; for _, f := range fs { acc = acc*100 + f() }; ti("acc=", acc)'),
]


def prog_g5():
    main = ""
    for name, body in G5_CASES:
        main += "\tdrive(\"range/%s\", func(x int) int {\n\t\t%s\n\t\treturn 0\n\t})\n" % (name, body)
    return PRELUDE + HELPERS + "\n//go:noinline\nfunc get64() [64]int { return [64]int{1: 5, 2: 6} }\n\nfunc main() {\n" + main + "\trunAll(cases)\n}\n"


# ---------------------------------------------------------------- G6 storage: variables declared in blocks that run several times, addresses that outlive the block
# full product type x declaration form x repetition form x use: every round must start from the zero value, every round's variable is a distinct one,
# and an address stored away (slice, global, map, struct field, closure) must still reach that round's variable after the frame is gone and the stack was overwritten
G6_TYPES = {
    "int": dict(decls=["var v int", "v := 0", "v := *new(int)"], mut="v += i + 1", show="v", addr="&v"),
    "arr": dict(decls=["var v [3]int", "v := [3]int{}", "v := [3]int{1: 0}", "v := *new([3]int)"], mut="v[i%3] += i + 1", show="v[0]*100 + v[1]*10 + v[2]", addr="&v[1]"),
    "st": dict(decls=["var v st6", "v := st6{}", "v := st6{c: \"\"}", "v := st6{a: 0, b: [2]bool{}}"], mut="v.a += i + 1; v.b[i%2] = true; v.c += \"x\"",
               show="v.a*100 + b2i(v.b[0])*10 + b2i(v.b[1]) + len(v.c)*1000", addr="&v.a"),
}
G6_REPS = {
    "for3": ("", "for i := 0; i < 3; i++ {\n%s\n}", ""),
    "rangeint": ("", "for i := range 3 {\n%s\n}", ""),
    "goto": ("i := 0", "L6:\nif i < 3 {\n%s\ni++\ngoto L6\n}", ""),
    "continue-outer": ("", "outer6:\nfor i := 0; i < 3; i++ {\nfor j := 0; j < 2; j++ {\n%s\nif j == 0 && i != 1 {\ncontinue outer6\n}\n}\n}", ""),
    "closure-calls": ("", "blk := func(i int) {\n%s\n}\nblk(0); blk(1); blk(2)", ""),
    "recursion": ("", "var rec func(i int)\nrec = func(i int) {\nif i == 3 {\nreturn\n}\n%s\nrec(i + 1)\n}\nrec(0)", ""),
    "range-slice": ("", "for i := range []string{\"a\", \"b\", \"c\"} {\n%s\n}", ""),
}
G6_USES = {
    "plain": ("", "", ""),
    "addr-local": ("", "p := %(addr)s; *p += 5", ""),
    "addr-in-slice": ("var saved []*int", "saved = append(saved, %(addr)s)", "ti(\"sm\", smash6(30)); for _, p := range saved { ti(\"s\", *p); *p += 1 }; for _, p := range saved { ti(\"t\", *p) }"),
    "addr-in-global": ("", "gp6[i] = %(addr)s", "ti(\"sm\", smash6(30)); for k := 0; k < 3; k++ { ti(\"s\", *gp6[k]); *gp6[k] += 1 }; for k := 0; k < 3; k++ { ti(\"t\", *gp6[k]) }"),
    "addr-in-map": ("mp := map[int]*int{}", "mp[i] = %(addr)s", "ti(\"sm\", smash6(30)); for k := 0; k < 3; k++ { ti(\"s\", *mp[k]); *mp[k] += 1 }; for k := 0; k < 3; k++ { ti(\"t\", *mp[k]) }"),
    "addr-in-field": ("var hold struct{ ps [3]*int }", "hold.ps[i] = %(addr)s", "ti(\"sm\", smash6(30)); for k := 0; k < 3; k++ { ti(\"s\", *hold.ps[k]); *hold.ps[k] += 1 }; for k := 0; k < 3; k++ { ti(\"t\", *hold.ps[k]) }"),
    "closure": ("var fs []func() int", "fs = append(fs, func() int { %(mut)s; return %(show)s })", "ti(\"sm\", smash6(30)); for _, f := range fs { ti(\"c\", f()) }; for _, f := range fs { ti(\"d\", f()) }"),
    "whole-addr": ("var keep []func() int", "q := &v; keep = append(keep, func() int { v := *q; return %(show)s })", "ti(\"sm\", smash6(30)); for _, f := range keep { ti(\"w\", f()) }"),
}
G6_SUPPORT = r"""
type st6 struct {
	a int
	b [2]bool
	c string
}

var gp6 [3]*int

func b2i(b bool) int {
	if b {
		return 1
	}
	return 0
}

//go:noinline
func smash6(n int) int {
	var pad [64]int
	for k := range pad {
		pad[k] = 7000 + n + k
	}
	if n == 0 {
		return pad[3] & 1
	}
	return smash6(n-1) + pad[5]&1
}

// a callee hands out the address of a part of its own local
//go:noinline
func mk6a(i int) *int { var v [3]int; v[1] = i; return &v[1] }

//go:noinline
func mk6s(i int) *int { v := st6{a: i}; p := &v; return &p.a }

//go:noinline
func mk6c(i int) func() int { var v [3]int; v[i%3] = i + 1; return func() int { v[0]++; return v[0]*100 + v[1]*10 + v[2] } }
"""


def prog_g6():
    main = ""
    n = 0
    for tn, T in G6_TYPES.items():
        for di, decl in enumerate(T["decls"]):
            for rn, (rpre, rtmpl, rpost) in G6_REPS.items():
                for un, (upre, ubody, upost) in G6_USES.items():
                    d = dict(addr=T["addr"], mut=T["mut"], show=T["show"])
                    inner = "%s\nti(\"z\", %s)\n%s\n%s\nti(\"m\", %s)" % (decl, T["show"], T["mut"], ubody % d, T["show"])
                    body = "\n".join(x for x in (upre, rpre, rtmpl % inner, upost % d) if x)
                    main += "\tdrive(\"storage/%s%d/%s/%s\", func(x int) int {\n%s\n\t\treturn 0\n\t})\n" % (tn, di, rn, un, "\n".join("\t\t" + ln for ln in body.split("\n")))
                    n += 1
    main += "\tdrive(\"storage/callee-part-addr\", func(x int) int {\n\t\ta, b, c := mk6a(3), mk6s(4), mk6a(5)\n\t\tf, g := mk6c(1), mk6c(2)\n\t\tti(\"sm\", smash6(30))\n\t\tti(\"a\", *a); ti(\"b\", *b); ti(\"c\", *c); *a += 10\n\t\tti(\"f\", f()); ti(\"g\", g()); ti(\"f\", f()); ti(\"a\", *a); ti(\"c\", *c)\n\t\treturn 0\n\t})\n"
    return PRELUDE + HELPERS + G6_SUPPORT + "\nfunc main() {\n" + main + "\trunAll(cases)\n}\n"


def programs(tier):
    ps = dict(prog_g1(tier))
    ps["calls_single"] = prog_g2(False)
    ps["calls_split"] = prog_g2(True)
    ps["data"] = prog_g3()
    ps["nest_single"] = prog_g4(False)
    ps["nest_split"] = prog_g4(True)
    ps["rangemut"] = prog_g5()
    ps["storage"] = prog_g6()
    return ps


if __name__ == "__main__":
    import os
    for k, v in programs("quick").items():
        files = v if isinstance(v, dict) else {"main.go": v}
        d = os.path.join(sys.argv[1], k)
        for rel, txt in files.items():
            os.makedirs(os.path.dirname(os.path.join(d, rel)), exist_ok=True)
            open(os.path.join(d, rel), "w").write(txt)
        open(os.path.join(d, "go.mod"), "w").write("module vt\n\ngo 1.24\n")
        print(k, sum(len(x) for x in files.values()))
