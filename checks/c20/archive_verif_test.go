package crosscompile

// Injected by /verif (C20): every entry sequence up to a bound, in the three formats, through the real
// extract functions; confinement, rejection of escaping entries, faithful re-creation of well-formed archives.

import (
	"archive/tar"
	"archive/zip"
	"bytes"
	"compress/gzip"
	"encoding/json"
	"fmt"
	"os"
	"os/exec"
	"path/filepath"
	"sort"
	"strconv"
	"strings"
	"sync"
	"testing"
)

type vres struct {
	Name        string           `json:"name"`
	Evaluations int              `json:"evaluations"`
	Nontrivial  int              `json:"distinct_nontrivial"`
	Violations  []map[string]any `json:"violations"`
	Samples     []any            `json:"samples"`
	Exhaustive  bool             `json:"exhaustive"`
	Extra       map[string]any   `json:"extra"`
	mu          sync.Mutex
}

func (r *vres) viol(key, what string, replay any) {
	r.mu.Lock()
	defer r.mu.Unlock()
	if len(r.Violations) < 80 {
		r.Violations = append(r.Violations, map[string]any{"key": key, "what": what, "replay": replay})
	}
}

type vEntry struct {
	Name string // entry name as stored
	Kind string // "f" file, "d" dir, "l" symlink
	Body int    // index into vBodies (files), link target for symlinks in Link
	Link string
}

var vBodies = [][]byte{{}, []byte("x"), bytes.Repeat([]byte("0123456789abcdef"), 70*64), []byte("second")}

func (e vEntry) String() string {
	switch e.Kind {
	case "d":
		return fmt.Sprintf("%q/", e.Name)
	case "l":
		return fmt.Sprintf("%q->%q", e.Name, e.Link)
	}
	return fmt.Sprintf("%q#%d", e.Name, e.Body)
}

func vArchiveString(es []vEntry) string {
	var s []string
	for _, e := range es {
		s = append(s, e.String())
	}
	return "[" + strings.Join(s, " ") + "]"
}

func makeTar(es []vEntry) []byte {
	var buf bytes.Buffer
	tw := tar.NewWriter(&buf)
	for _, e := range es {
		h := &tar.Header{Name: e.Name, Mode: 0o644, Format: tar.FormatPAX}
		switch e.Kind {
		case "d":
			h.Typeflag, h.Mode = tar.TypeDir, 0o755
		case "l":
			h.Typeflag, h.Linkname = tar.TypeSymlink, e.Link
		default:
			h.Typeflag, h.Size = tar.TypeReg, int64(len(vBodies[e.Body]))
		}
		if err := tw.WriteHeader(h); err != nil {
			return nil // a name the tar writer cannot represent
		}
		if e.Kind == "f" {
			tw.Write(vBodies[e.Body])
		}
	}
	tw.Close()
	return buf.Bytes()
}

func makeArchive(format string, es []vEntry, path string) bool {
	switch format {
	case "tar.gz":
		t := makeTar(es)
		if t == nil {
			return false
		}
		var buf bytes.Buffer
		gw := gzip.NewWriter(&buf)
		gw.Write(t)
		gw.Close()
		return os.WriteFile(path, buf.Bytes(), 0o644) == nil
	case "tar.xz":
		t := makeTar(es)
		if t == nil {
			return false
		}
		cmd := exec.Command("xz", "-0", "-c")
		cmd.Stdin = bytes.NewReader(t)
		out, err := cmd.Output()
		if err != nil {
			panic(err)
		}
		return os.WriteFile(path, out, 0o644) == nil
	case "zip":
		var buf bytes.Buffer
		zw := zip.NewWriter(&buf)
		for _, e := range es {
			name := e.Name
			h := &zip.FileHeader{Name: name, Method: zip.Deflate}
			switch e.Kind {
			case "d":
				if !strings.HasSuffix(name, "/") {
					h.Name = name + "/"
				}
				h.SetMode(0o755 | os.ModeDir)
			case "l":
				h.SetMode(0o777 | os.ModeSymlink)
			default:
				h.SetMode(0o644)
			}
			w, err := zw.CreateHeader(h)
			if err != nil {
				return false
			}
			if e.Kind == "f" {
				w.Write(vBodies[e.Body])
			} else if e.Kind == "l" {
				w.Write([]byte(e.Link))
			}
		}
		zw.Close()
		return os.WriteFile(path, buf.Bytes(), 0o644) == nil
	}
	panic(format)
}

// snapshot of everything under root except the subtree skip: path -> "d" | "l:<target>" | "f:<content>"
func vSnapshot(root, skip string) map[string]string {
	m := map[string]string{}
	filepath.Walk(root, func(p string, info os.FileInfo, err error) error {
		if err != nil {
			return nil
		}
		if skip != "" && (p == skip || strings.HasPrefix(p, skip+string(os.PathSeparator))) {
			if info.IsDir() {
				return filepath.SkipDir
			}
			return nil
		}
		rel, _ := filepath.Rel(root, p)
		switch {
		case info.Mode()&os.ModeSymlink != 0:
			t, _ := os.Readlink(p)
			m[rel] = "l:" + t
		case info.IsDir():
			m[rel] = "d"
		default:
			b, _ := os.ReadFile(p)
			m[rel] = "f:" + string(b)
		}
		return nil
	})
	return m
}

func vClean(name string) (string, bool) { // clean relative name with no . / .. / empty segments
	if name == "" || strings.HasPrefix(name, "/") {
		return "", false
	}
	n := strings.TrimSuffix(name, "/")
	for _, seg := range strings.Split(n, "/") {
		if seg == "" || seg == "." || seg == ".." {
			return "", false
		}
	}
	return n, true
}

// expectation for a well-formed archive: every name clean and relative, only files and directories, no path used both
// as file and as directory. Later entries of the same file name replace earlier ones.
func vExpected(es []vEntry) (map[string]string, bool) {
	exp := map[string]string{}
	for _, e := range es {
		n, ok := vClean(e.Name)
		if !ok || e.Kind == "l" {
			return nil, false
		}
		parts := strings.Split(n, "/")
		for i := 1; i < len(parts); i++ {
			par := strings.Join(parts[:i], "/")
			if v, have := exp[par]; have && v != "d" {
				return nil, false
			}
			exp[par] = "d"
		}
		if e.Kind == "d" {
			if v, have := exp[n]; have && v != "d" {
				return nil, false
			}
			exp[n] = "d"
		} else {
			if v, have := exp[n]; have && v == "d" {
				return nil, false
			}
			exp[n] = "f:" + string(vBodies[e.Body])
		}
	}
	return exp, true
}

func vEscapes(dest string, es []vEntry) bool {
	d := filepath.Clean(dest)
	for _, e := range es {
		t := filepath.Join(d, e.Name)
		if t != d && !strings.HasPrefix(t, d+string(os.PathSeparator)) {
			return true
		}
	}
	return false
}

func vPool(outside string) []vEntry {
	return []vEntry{
		{Name: "a", Kind: "f", Body: 1}, {Name: "a", Kind: "f", Body: 3}, {Name: "a", Kind: "f", Body: 0}, {Name: "big", Kind: "f", Body: 2},
		{Name: "d/a", Kind: "f", Body: 1}, {Name: "d/e/a", Kind: "f", Body: 3}, {Name: "d/", Kind: "d"}, {Name: "d", Kind: "f", Body: 1},
		{Name: "./a", Kind: "f", Body: 1}, {Name: "d/./a", Kind: "f", Body: 1},
		{Name: "../x", Kind: "f", Body: 1}, {Name: "d/../../x", Kind: "f", Body: 1}, {Name: "../sdk-old/x", Kind: "f", Body: 1}, {Name: "../sdkx", Kind: "f", Body: 1},
		{Name: "..", Kind: "d"}, {Name: "../nd", Kind: "d"},
		{Name: outside + "/abs.txt", Kind: "f", Body: 1},
		{Name: "l", Kind: "l", Link: "../outside"}, {Name: "l/y", Kind: "f", Body: 1},
		{Name: "é b.txt", Kind: "f", Body: 1},
	}
}

func TestVerifArchives(t *testing.T) {
	maxLen := 2
	if v, err := strconv.Atoi(os.Getenv("VERIF_SEQLEN")); err == nil {
		maxLen = v
	}
	formats := []string{"tar.gz", "zip", "tar.xz"}
	r := &vres{Name: "archives", Exhaustive: true, Extra: map[string]any{"seq_len": maxLen}}
	base := t.TempDir()
	pool := vPool(filepath.Join(base, "PLACEHOLDER"))
	var seqs [][]int
	var rec func(cur []int)
	rec = func(cur []int) {
		if len(cur) > 0 {
			seqs = append(seqs, append([]int{}, cur...))
		}
		if len(cur) == maxLen {
			return
		}
		for i := range pool {
			rec(append(cur, i))
		}
	}
	rec(nil)
	r.Extra["sequences"] = len(seqs)
	type job struct {
		seq    []int
		format string
	}
	var jobs []job
	for _, s := range seqs {
		for _, f := range formats {
			if f == "tar.xz" && len(s) > 2 && maxLen > 2 {
				continue // external tar: sequences up to length 2 (each run forks xz and tar)
			}
			jobs = append(jobs, job{s, f})
		}
	}
	var wg sync.WaitGroup
	var mu sync.Mutex
	counts := map[string]int{}
	distinct := map[string]bool{}
	nw := 16
	for w := 0; w < nw; w++ {
		wg.Add(1)
		go func(w int) {
			defer wg.Done()
			lc := map[string]int{}
			ld := map[string]bool{}
			for ji := w; ji < len(jobs); ji += nw {
				j := jobs[ji]
				root := filepath.Join(base, fmt.Sprintf("w%d", w))
				os.RemoveAll(root)
				dest := filepath.Join(root, "sdk")
				outside := filepath.Join(root, "outside")
				os.MkdirAll(dest, 0o755)
				os.MkdirAll(outside, 0o755)
				os.MkdirAll(filepath.Join(root, "sdk-old"), 0o755)
				os.WriteFile(filepath.Join(root, "canary"), []byte("canary"), 0o644)
				os.WriteFile(filepath.Join(root, "sdk-old", "canary"), []byte("canary"), 0o644)
				os.WriteFile(filepath.Join(outside, "canary"), []byte("canary"), 0o644)
				p := vPool(outside)
				var es []vEntry
				for _, i := range j.seq {
					es = append(es, p[i])
				}
				arch := filepath.Join(root, "in."+j.format)
				if !makeArchive(j.format, es, arch) {
					lc["unrepresentable"]++
					continue
				}
				before := vSnapshot(root, dest)
				var err error
				switch j.format {
				case "tar.gz":
					err = extractTarGz(arch, dest)
				case "zip":
					err = extractZip(arch, dest)
				case "tar.xz":
					err = extractTarXz(arch, dest)
				}
				lc["extractions"]++
				desc := j.format + " " + vArchiveString(es)
				desc = strings.ReplaceAll(desc, outside, "<ABS>")
				replay := map[string]any{"format": j.format, "entries": es}
				after := vSnapshot(root, dest)
				// (1) confinement
				var diff []string
				for k, v := range after {
					if before[k] != v {
						diff = append(diff, k)
					}
				}
				for k := range before {
					if _, ok := after[k]; !ok {
						diff = append(diff, "-"+k)
					}
				}
				if len(diff) > 0 {
					sort.Strings(diff)
					r.viol("escape:"+desc, fmt.Sprintf("extracting %s (err=%v) changed paths outside the destination: %v", desc, err, diff), replay)
				}
				esc := vEscapes(dest, es)
				if esc {
					lc["escaping"]++
					ld[desc] = true
					// (2) an entry that would escape is rejected with an error
					if err == nil {
						r.viol("noreject:"+desc, fmt.Sprintf("extracting %s returned no error although an entry lies outside the destination", desc), replay)
					}
				}
				// (3) well-formed archives are re-created exactly
				if exp, ok := vExpected(es); ok {
					lc["wellformed"]++
					ld[desc] = true
					if err != nil {
						r.viol("wellformed-err:"+desc, fmt.Sprintf("well-formed archive %s failed to extract: %v", desc, err), replay)
					} else {
						got := vSnapshot(dest, "")
						delete(got, ".")
						bad := ""
						for k, v := range exp {
							if got[k] != v {
								g := got[k]
								if len(g) > 40 {
									g = g[:40] + "..."
								}
								if len(v) > 40 {
									v = v[:40] + "..."
								}
								bad = fmt.Sprintf("%s: got %q want %q", k, g, v)
								break
							}
						}
						if bad == "" {
							for k := range got {
								if _, ok := exp[k]; !ok {
									bad = "unexpected path " + k
								}
							}
						}
						if bad != "" {
							r.viol("wellformed:"+desc, fmt.Sprintf("well-formed archive %s was not re-created faithfully: %s", desc, bad), replay)
						}
					}
				}
			}
			mu.Lock()
			for k, v := range lc {
				counts[k] += v
			}
			for k := range ld {
				distinct[k] = true
			}
			mu.Unlock()
		}(w)
	}
	wg.Wait()
	r.Evaluations = counts["extractions"]
	r.Nontrivial = len(distinct)
	for k, v := range counts {
		r.Extra[k] = v
	}
	r.Samples = []any{"tar.gz " + vArchiveString([]vEntry{pool[4], pool[10]}), "zip " + vArchiveString([]vEntry{pool[6], pool[4], pool[1]})}
	if p := os.Getenv("VERIF_OUT"); p != "" {
		b, _ := json.Marshal([]*vres{r})
		os.WriteFile(p, b, 0o644)
	}
}
