#!/usr/bin/env python3
"""C20: (a) all archive entry sequences up to a bound x {tar.gz, zip, tar.xz} through the real extract functions;
(b) concurrent checkDownloadAndExtractLib requests under the controlled scheduler (file-system-call granularity)."""
import argparse, json, os, sys, subprocess
sys.path.insert(0, "/verif/lib")
from common import *
HERE = os.path.dirname(os.path.abspath(__file__))
ap = argparse.ArgumentParser()
ap.add_argument("--id", default="C20"); ap.add_argument("--tier", default=os.environ.get("VERIF_TIER", "quick")); ap.add_argument("--replay")
a = ap.parse_args()
thorough = a.tier == "thorough"
from schedrun import build_explorer
FETCHX = os.path.join(BUILD, "sched", "fetchexplore")
if a.replay and '"choices"' in open(a.replay).read():
    build_explorer()
    sys.exit(subprocess.run([FETCHX, "-replay", a.replay], env=dict(os.environ, GOMAXPROCS="1")).returncode)
rep = Report("C20", a.tier, "model_checking")
work = workdir("C20")
out = os.path.join(work, "arch.json")
if os.path.exists(out): os.remove(out)
r = go_test_overlay("internal/crosscompile", {"zz_archive_verif_test.go": os.path.join(HERE, "archive_verif_test.go")}, "^TestVerifArchives$",
                    env_extra={"VERIF_OUT": out, "VERIF_SEQLEN": "3" if thorough else "2", "TMPDIR": work}, timeout=3000)
subs = {}
ev = nt = 0
samples = []
exh = True
if r.returncode != 0 or not os.path.exists(out):
    rep.violation("harness:archives", "injected test did not complete:\n" + r.stdout[-3000:] + r.stderr[-2000:]); exh = False
else:
    for sub in json.load(open(out)):
        ev += sub["evaluations"]; nt += sub["distinct_nontrivial"]; samples += sub["samples"]
        subs[sub["name"]] = {k: sub[k] for k in ("evaluations", "distinct_nontrivial", "extra")}
        for v in sub["violations"] or []:
            rep.violation(v["key"], v["what"], v.get("replay"))
rep.coverage.update(evaluations=ev, distinct_nontrivial=nt, exhaustive=exh, samples=samples or ["-"], sub_checks=subs,
    rule="all sequences of <=2 (thorough 3) entries from a pool of 20 (plain, nested, './', '..' at several depths, sibling-prefix escapes, absolute, "
         "dir entries, duplicates, file/dir clashes, symlink then file through it, unicode/space) in tar.gz, zip and tar.xz; each extracted by the real function "
         "into a fresh sandbox with canaries; non-trivial = distinct archives that are either escaping or well-formed (both oracles exercised)")

# ---- (b) concurrent requests: the real fetch.go under the controlled scheduler
# (n, sub, entry, small, preempt, env, shards, fault kinds (0 = all three))
QUICK = [(3, "", "lib", True, 3, 1, 48, 1), (2, "", "lib", True, 3, 1, 4, 0), (2, "", "lib", False, 2, 1, 1, 0), (2, "top", "lib", False, 2, 1, 1, 0), (2, "", "wasi", False, 2, 1, 1, 0), (2, "", "esp", True, 2, 1, 8, 1),
         (3, "", "lib", False, 2, 1, 8, 0), (3, "", "wasi", True, 1, 1, 1, 0), (4, "", "lib", True, 1, 1, 1, 0)]
THOROUGH = [(3, "", "lib", True, 3, 1, 48, 0), (3, "", "wasi", True, 3, 1, 48, 1), (2, "", "lib", False, 3, 2, 4, 0), (2, "top", "lib", False, 3, 2, 4, 0),
            (2, "", "wasi", False, 3, 2, 4, 0), (3, "", "lib", False, 2, 2, 16, 0), (3, "top", "wasi", True, 2, 1, 8, 0), (4, "", "lib", True, 2, 1, 16, 0), (3, "", "esp", True, 2, 1, 16, 1), (2, "", "esp", False, 3, 1, 16, 0)]
conc = {"configs": {}, "execs": 0, "points": 0}
try:
    build_explorer()
    jobs = []
    cw = workdir("C20", "conc")
    scratch = "/dev/shm" if os.path.isdir("/dev/shm") and os.access("/dev/shm", os.W_OK) else cw
    for ci, (n, sub, entry, small, pre, env, shards, kinds) in enumerate(THOROUGH if thorough else QUICK):
        for sh in range(shards):
            o = os.path.join(cw, "c%d_%d.json" % (ci, sh))
            if os.path.exists(o): os.remove(o)
            cmd = [FETCHX, "-n", str(n), "-sub", sub, "-entry", entry, "-preempt", str(pre), "-env", str(env), "-faults", "-jumps", "-faultkinds", str(kinds), "-shard", str(sh), "-nshards", str(shards),
                   "-budget", "6000" if thorough else "300", "-scratch", scratch, "-out", o] + (["-small"] if small else [])
            jobs.append((ci, sh, o, cmd))
    def runj(j):
        return j, subprocess.run(j[3], env=dict(os.environ, GOMAXPROCS="1"), capture_output=True, text=True)
    for (ci, sh, o, cmd), r in pmap(runj, jobs, workers=NCPU):
        cfg = conc["configs"].setdefault("c%d" % ci, {"execs": 0, "points": 0, "outcomes": {}, "timed_out": False, "max_choice_depth": 0})
        if r.returncode != 0 or not os.path.exists(o):
            rep.violation("harness:fetch:c%d" % ci, "explorer shard %d crashed:\n%s" % (sh, (r.stderr or r.stdout)[-1500:])); exh = False
            continue
        d = json.load(open(o))
        cfg["scenario"], cfg["bounds"] = d["scenario"], d["bounds"]
        cfg["execs"] += d["execs"]; cfg["points"] += d["points"]; cfg["timed_out"] |= d["timed_out"] or d["capped"] or d.get("undecided_polling_horizons", 0) > 0
        cfg["max_choice_depth"] = max(cfg["max_choice_depth"], d["max_choice_depth"])
        for k, v in d["outcomes"].items():
            cfg["outcomes"][k] = cfg["outcomes"].get(k, 0) + v
        for v in d["violations"] or []:
            rep.violation(v["key"], v["what"], v)
    for c in conc["configs"].values():
        conc["execs"] += c["execs"]; conc["points"] += c["points"]
        if c["timed_out"]: exh = False
except BuildError as e:
    rep.violation("harness:fetch:build", str(e)); exh = False
rep.coverage.update(schedules=conc["execs"], scheduling_points=conc["points"], states=conc["points"], transitions=conc["points"],
    traces_validated_against_impl=conc["execs"], exhaustive=exh, concurrent_requests=conc["configs"],
    concurrency_rule="n concurrent requests (checkDownloadAndExtractLib with and without an internal directory, checkDownloadAndExtractWasiSDK, checkDownloadAndExtractESPClang with a .tar.xz made and unpacked by the system tar) for one destination; "
        "fetch.go is the working-tree file with only its os/syscall/net/http/time import paths redirected; every os call, flock, close and http.Get is a scheduling point on the "
        "real file system; flock is one scheduler mutex per inode owned by the open description (dropped on Close); the environment may fail a download (connection error, "
        "body cut half way, status 500) or let a day pass during a time.Sleep (should fetch.go poll) within the env bound; all schedules within the preemption bound; oracle at every point: if the destination exists it holds every "
        "archived file with exactly its bytes, a request that returned success implies the destination exists; at the end: no deadlock/livelock, with no failed download "
        "every request succeeds")
rep.assumptions += ["concurrency: requests modelled as threads of one process (fetch.go shares no in-process state; flock conflicts between open descriptions either way)",
                    "rename/mkdir/open are atomic file-system steps; crash points are not explored",
                    "well-formed = clean relative names, files and directories only, no path used as both; a later entry of the same name replaces the earlier",
                    "root entries '.'/'./' are outside the well-formed set (tar.gz rejects them with an error; not claimed either way)",
                    "tar.xz goes through the system's GNU tar 1.34"]
rep.finish()
