#!/usr/bin/env python3
"""C20: (a) all archive entry sequences up to a bound x {tar.gz, zip, tar.xz} through the real extract functions;
(b) concurrent checkDownloadAndExtractLib requests under the controlled scheduler (file-system-call granularity)."""
import argparse, json, os, sys
sys.path.insert(0, "/verif/lib")
from common import *
HERE = os.path.dirname(os.path.abspath(__file__))
ap = argparse.ArgumentParser()
ap.add_argument("--id", default="C20"); ap.add_argument("--tier", default=os.environ.get("VERIF_TIER", "quick")); ap.add_argument("--replay")
a = ap.parse_args()
thorough = a.tier == "thorough"
rep = Report("C20", a.tier, "exploration")
work = workdir("C20")
out = os.path.join(work, "arch.json")
if os.path.exists(out): os.remove(out)
r = go_test_overlay("internal/crosscompile", {"zz_archive_verif_test.go": os.path.join(HERE, "archive_verif_test.go")}, "^TestVerifArchives$",
                    env_extra={"VERIF_OUT": out, "VERIF_SEQLEN": "3" if thorough else "2", "TMPDIR": work}, timeout=3000)
subs = {}
ev = nt = 0
samples = []
exh = True
if r.returncode != 0 or not os.path.exists(out):
    rep.violation("harness:archives", "injected test did not complete:\n" + r.stdout[-3000:] + r.stderr[-2000:]); exh = False
else:
    for sub in json.load(open(out)):
        ev += sub["evaluations"]; nt += sub["distinct_nontrivial"]; samples += sub["samples"]
        subs[sub["name"]] = {k: sub[k] for k in ("evaluations", "distinct_nontrivial", "extra")}
        for v in sub["violations"] or []:
            rep.violation(v["key"], v["what"], v.get("replay"))
rep.coverage.update(evaluations=ev, distinct_nontrivial=nt, exhaustive=exh, samples=samples or ["-"], sub_checks=subs,
    rule="all sequences of <=2 (thorough 3) entries from a pool of 20 (plain, nested, './', '..' at several depths, sibling-prefix escapes, absolute, "
         "dir entries, duplicates, file/dir clashes, symlink then file through it, unicode/space) in tar.gz, zip and tar.xz; each extracted by the real function "
         "into a fresh sandbox with canaries; non-trivial = distinct archives that are either escaping or well-formed (both oracles exercised)")
rep.assumptions += ["well-formed = clean relative names, files and directories only, no path used as both; a later entry of the same name replaces the earlier",
                    "root entries '.'/'./' are outside the well-formed set (tar.gz rejects them with an error; not claimed either way)",
                    "tar.xz goes through the system's GNU tar 1.34"]
rep.finish()
