#!/usr/bin/env python3
"""C11 (A,B): the real semaphore and notify-list code of sema_llgo.go (copied from the working tree at check time) under the
controlled scheduler; every terminal state must be reachable in the reference semaphore / ticket specification."""
import argparse, json, os, sys, subprocess
sys.path.insert(0, "/verif/lib")
from common import *
from schedrun import *
ap = argparse.ArgumentParser()
ap.add_argument("--id", default="C11"); ap.add_argument("--tier", default=os.environ.get("VERIF_TIER", "quick")); ap.add_argument("--replay")
a = ap.parse_args()
build_explorer()
if a.replay:
    sys.exit(subprocess.run([EXPLORE, "-mode", "replay", "-replay", a.replay]).returncode)
rep = Report("C11", a.tier, "model_checking")
import importlib.util
spec = importlib.util.spec_from_file_location("fam", "/verif/checks/c11/families.py"); fam = importlib.util.module_from_spec(spec); spec.loader.exec_module(fam)
aggs = run_families(fam.THOROUGH if a.tier == "thorough" else fam.QUICK, budget_s=3000 if a.tier == "thorough" else 900)
report_families(rep, aggs)
rep.coverage["rule"] = ("scenario = initial semaphore values x per-thread programs of Acquire/Release on 1-2 semaphores, or of notifyListAdd/Wait/NotifyOne/NotifyAll "
    "(all programs up to the family's length, reduced by thread permutation); every interleaving at lock/cond/atomic granularity within the bounds, every Signal "
    "waiter choice, <=1 spurious wake-up; terminal state (per-thread done/blocked position + counter values) must be reachable in the reference specification "
    "(semaphore: acquire needs value>0; notify list: Wait(t) may return only once the notify counter passed ticket t). non-trivial = scenarios with >1 terminal state")
rep.assumptions += ["atomics sequentially consistent (the scheduler does not model weaker orderings)", "pthread mutex/cond modelled; Signal wakes any one waiter",
                    "sync.Mutex/RWMutex/WaitGroup/Once/Cond themselves are Go's own code layered on these primitives (not re-explored here)"]
rep.finish()
