#!/usr/bin/env python3
"""C11 (A,B,C,D): the real semaphore and notify-list code of sema_llgo.go (copied from the working tree at check time) under the
controlled scheduler; every terminal state must be reachable in the reference semaphore / ticket specification."""
import argparse, json, os, sys, subprocess
sys.path.insert(0, "/verif/lib")
from common import *
from schedrun import *
ap = argparse.ArgumentParser()
ap.add_argument("--id", default="C11"); ap.add_argument("--tier", default=os.environ.get("VERIF_TIER", "quick")); ap.add_argument("--replay")
a = ap.parse_args()
build_explorer()
if a.replay:
    sys.exit(subprocess.run([EXPLORE, "-mode", "replay", "-replay", a.replay]).returncode)
rep = Report("C11", a.tier, "model_checking")
import importlib.util
spec = importlib.util.spec_from_file_location("fam", "/verif/checks/c11/families.py"); fam = importlib.util.module_from_spec(spec); spec.loader.exec_module(fam)
aggs = run_families(fam.THOROUGH if a.tier == "thorough" else fam.QUICK, budget_s=3000 if a.tier == "thorough" else 900)
report_families(rep, aggs)
rep.coverage["rule"] = ("scenario = initial semaphore values x per-thread programs of Acquire/Release on 1-2 semaphores, or of notifyListAdd/Wait/NotifyOne/NotifyAll "
    "(all programs up to the family's length, reduced by thread permutation); every interleaving at lock/cond/atomic granularity within the bounds, every Signal "
    "waiter choice, <=1 spurious wake-up; terminal state (per-thread done/blocked position + counter values) must be reachable in the reference specification "
    "(semaphore: acquire needs value>0; notify list: Wait(t) may return only once the notify counter passed ticket t). non-trivial = scenarios with >1 terminal state")
rep.assumptions += ["atomics sequentially consistent (the scheduler does not model weaker orderings)", "pthread mutex/cond modelled; Signal wakes any one waiter",
                    "part C: sync.Mutex/RWMutex/WaitGroup/Once/Cond are the GOROOT sources llgo compiles (go1.24.0), import paths redirected, running on the real sema_llgo.go; "
                    "whether a clock reading crosses the mutex starvation threshold is an environment choice (<=1 per execution)"]
rep.coverage["rule"] += ("; C (mode sync): the standard library's Mutex, RWMutex, WaitGroup, Once and Cond on top of llgo's semaphores/notify list: 2-4 threads per scenario, all schedules at "
    "atomic/lock/cond granularity within the bounds; oracles: never two holders (reader/writer exclusion), no lost update, every Lock/Wait/Do returns once it may (no blocked thread at "
    "the end), Wait returns only after all Done, Do's function ran exactly once and completely before any Do returns, Cond.Wait returns only after a Signal/Broadcast issued after it "
    "started waiting and exactly min(signals, waiters) / all waiters return")
rep.coverage["rule"] += ("; D (mode value): llgo's own atomic.Value (value.go, byte-identical copy) on scheduler-aware pointer atomics: 2-3 threads of Load/Store/Swap/CompareAndSwap "
    "over values {1,2} from an empty and from a pre-stored Value (multisets of thread programs), every interleaving at atomic-operation granularity within the preemption bound; "
    "busy-waiting on an unchanged location is a blocking wait; every complete call/return history (plus a final Load) is checked for linearizability against a one-cell register with porcupine v1.3.0")
rep.assumptions += ["part D: histories are memoised by their event sequence before porcupine is asked; values are small ints boxed by the host Go runtime"]
# ---- parts E (atomics table) and F (go statements): llgo-compiled programs
import re, glob, shutil
sys.path.insert(0, os.path.dirname(os.path.abspath(__file__)))
import gen as gen11
from diff import *
progs = [Prog(n, {"main.go": src}, backends=(("A", ()), ("C", ()))) for n, src in gen11.programs(a.tier).items()]
results = pmap(lambda p: diff_prog("C11", p, timeout=300), progs, workers=2)
nprog, ncases, ndist = report_diff(rep, "C11", results)
rep.coverage["evaluations"] += ncases; rep.coverage["distinct_nontrivial"] += ndist
# IR table: every sync/atomic function must be one LLVM atomic instruction of the operand's width with seq_cst ordering
d = workdir("C11", "atomics_ir")
src = os.path.join(d, "src"); gc = os.path.join(d, "gocache")
write_module(src, {"main.go": gen11.prog_atomics()})
shutil.rmtree(gc, ignore_errors=True); os.makedirs(gc)
e = llgo_env("C", "-atomir"); e["GOCACHE"] = gc
r = subprocess.run([llgo_path(), "build", "-O0", "-gen-llfiles", "-o", os.path.join(d, "x.exe"), "."], cwd=src, env=e, capture_output=True, text=True, timeout=1800)
irs = [f for f in glob.glob(os.path.join(gc, "*", "*.ll")) if "f_LoadInt32" in open(f).read()]
table_ok = 0
if r.returncode != 0 or not irs:
    rep.violation("harness:atomics-ir", "could not obtain the IR of the atomics program:\n" + r.stderr[-1500:])
else:
    txt = open(irs[0]).read()
    for name, decl, instr, width in gen11.table():
        m = re.search(r'define [^\n]*@"?vt\.%s"?\(.*?\n}\n' % name, txt, re.S)
        if not m:
            rep.violation("atomics-ir:" + name, "function %s not found in the IR" % name); continue
        body = m.group(0)
        atom = [l.strip() for l in body.split("\n") if re.search(r"\b(load atomic|store atomic|atomicrmw|cmpxchg|fence)\b", l)]
        ok = len(atom) == 1 and instr in atom[0] and ("seq_cst seq_cst" in atom[0] if "cmpxchg" in instr else "seq_cst" in atom[0]) and ("i%d" % width in atom[0] or "ptr" in atom[0])
        if ok:
            table_ok += 1
        else:
            rep.violation("atomics-ir:" + name, "sync/atomic %s must lower to exactly one `%s ... seq_cst` on i%d; IR has: %s" % (name[2:], instr, width, atom or "no atomic instruction"))
rep.coverage["atomics_ir_table"] = {"functions": len(gen11.table()), "lowered_to_one_seq_cst_instruction": table_ok}
rep.coverage["rule"] += ("; E: each of the %d functions of sync/atomic's function API is compiled alone and its IR must contain exactly one atomic instruction of the right opcode, width and "
    "seq_cst ordering, results on boundary operands equal go1.24.0 (typed API and atomic.Value sequentially); F: 12 go-statement forms x argument shapes, values mutated after the statement, in loops" % len(gen11.table()))
rep.finish()
