"""C11 parts E/F: the sync/atomic function API lowered to LLVM atomics (IR table + sequential results), and go statements (every call form x argument shape)."""
import sys
sys.path.insert(0, "/verif/lib")
from prelude import PRELUDE

ITYPES = [("Int32", "int32", 32), ("Int64", "int64", 64), ("Uint32", "uint32", 32), ("Uint64", "uint64", 64), ("Uintptr", "uintptr", 64)]
# (api prefix, signature template, expected LLVM instruction regex fragment)
OPS = [("Load", "func f_Load%(N)s(p *%(T)s) %(T)s { return atomic.Load%(N)s(p) }", "load atomic i%(W)d"),
       ("Store", "func f_Store%(N)s(p *%(T)s, v %(T)s) { atomic.Store%(N)s(p, v) }", "store atomic i%(W)d"),
       ("Add", "func f_Add%(N)s(p *%(T)s, v %(T)s) %(T)s { return atomic.Add%(N)s(p, v) }", "atomicrmw add"),
       ("Swap", "func f_Swap%(N)s(p *%(T)s, v %(T)s) %(T)s { return atomic.Swap%(N)s(p, v) }", "atomicrmw xchg"),
       ("CompareAndSwap", "func f_CompareAndSwap%(N)s(p *%(T)s, o, n %(T)s) bool { return atomic.CompareAndSwap%(N)s(p, o, n) }", "cmpxchg"),
       ("And", "func f_And%(N)s(p *%(T)s, v %(T)s) %(T)s { return atomic.And%(N)s(p, v) }", "atomicrmw and"),
       ("Or", "func f_Or%(N)s(p *%(T)s, v %(T)s) %(T)s { return atomic.Or%(N)s(p, v) }", "atomicrmw or")]


def table():
    rows = []
    for opn, tmpl, instr in OPS:
        for N, T, W in ITYPES:
            rows.append(("f_%s%s" % (opn, N), tmpl % dict(N=N, T=T, W=W), instr % dict(W=W), W))
    rows.append(("f_LoadPointer", "func f_LoadPointer(p *unsafe.Pointer) unsafe.Pointer { return atomic.LoadPointer(p) }", "load atomic ptr", 64))
    rows.append(("f_StorePointer", "func f_StorePointer(p *unsafe.Pointer, v unsafe.Pointer) { atomic.StorePointer(p, v) }", "store atomic ptr", 64))
    rows.append(("f_SwapPointer", "func f_SwapPointer(p *unsafe.Pointer, v unsafe.Pointer) unsafe.Pointer { return atomic.SwapPointer(p, v) }", "atomicrmw xchg", 64))
    rows.append(("f_CompareAndSwapPointer", "func f_CompareAndSwapPointer(p *unsafe.Pointer, o, n unsafe.Pointer) bool { return atomic.CompareAndSwapPointer(p, o, n) }", "cmpxchg", 64))
    return rows


def prog_atomics():
    src = PRELUDE.replace('import (\n\t"os"\n\t"unsafe"\n)', 'import (\n\t"os"\n\t"sync/atomic"\n\t"unsafe"\n)') + "\nvar cases []func()\n\n"
    for name, decl, _, _ in table():
        src += "//go:noinline\n" + decl + "\n\n"
    main = []
    for N, T, W in ITYPES:
        sign = T.startswith("int")
        show = "itoa(int64(%s))" if sign else "utoa(uint64(%s))"
        vals = ["0", "1", "^%s(0)" % T, "1<<%d" % (W - 1) if not sign else "-1<<%d" % (W - 1), "%s(1)<<%d - 1" % (T, W - 2) if sign else "%s(1)<<%d + 5" % (T, W - 2)]
        body = "\t\ts := \"\"\n\t\tvals := []%s{%s}\n\t\tfor _, a := range vals {\n\t\t\tfor _, b := range vals {\n\t\t\t\tx := a\n" % (T, ", ".join(vals))
        body += "\t\t\t\tr1 := f_Add%s(&x, b)\n\t\t\t\tr2 := f_Swap%s(&x, a)\n\t\t\t\tr3 := f_CompareAndSwap%s(&x, a, b)\n\t\t\t\tr4 := f_CompareAndSwap%s(&x, a, b)\n\t\t\t\tr5 := f_And%s(&x, a)\n\t\t\t\tr6 := f_Or%s(&x, b)\n\t\t\t\tf_Store%s(&x, r1)\n\t\t\t\tr7 := f_Load%s(&x)\n" % ((N,) * 8)
        body += "\t\t\t\ts += %s + \",\" + %s + \",\" + btoa(r3) + btoa(r4) + \",\" + %s + \",\" + %s + \",\" + %s + \" \"\n\t\t\t}\n\t\t}\n" % (show % "r1", show % "r2", show % "r5", show % "r6", show % "r7")
        main.append("\tcases = append(cases, func() {\n%s\t\temit(\"atomic/%s\", s)\n\t})" % (body, N))
    main.append('''	cases = append(cases, func() {
		a, b := 1, 2
		p := unsafe.Pointer(&a)
		old := f_SwapPointer(&p, unsafe.Pointer(&b))
		ok1 := f_CompareAndSwapPointer(&p, unsafe.Pointer(&a), nil)
		ok2 := f_CompareAndSwapPointer(&p, unsafe.Pointer(&b), unsafe.Pointer(&a))
		f_StorePointer(&p, f_LoadPointer(&p))
		emit("atomic/Pointer", btoa(old == unsafe.Pointer(&a))+btoa(ok1)+btoa(ok2)+btoa(f_LoadPointer(&p) == unsafe.Pointer(&a)))
	})
	cases = append(cases, func() {
		// typed API and atomic.Value
		var i32 atomic.Int32
		var u64 atomic.Uint64
		var bo atomic.Bool
		var pt atomic.Pointer[int]
		var v atomic.Value
		i32.Store(-5)
		u64.Store(1 << 63)
		x := 7
		pt.Store(&x)
		s := itoa(int64(i32.Add(3))) + "," + utoa(u64.Add(1<<63)) + "," + btoa(bo.CompareAndSwap(false, true)) + btoa(bo.Load()) + "," + itoa(int64(*pt.Load())) + "," + btoa(i32.CompareAndSwap(-2, 9)) + itoa(int64(i32.Swap(1))) + itoa(int64(i32.And(3))) + itoa(int64(i32.Or(4)))
		s += "," + btoa(v.Load() == nil)
		v.Store("a")
		s += "," + v.Load().(string) + v.Swap("b").(string) + btoa(v.CompareAndSwap("b", "c")) + btoa(v.CompareAndSwap("b", "d")) + v.Load().(string)
		func() {
			defer func() {
				if recover() != nil {
					s += ",P"
				}
			}()
			v.Store(1) // inconsistent type: must panic
		}()
		emit("atomic/typed", s)
	})''')
    src += "func main() {\n" + "\n".join(main) + "\n\trunAll(cases)\n}\n"
    return src


def prog_go():
    """go statements: callee kinds x argument shapes x {in loop, not}: each runs exactly once with the values at the go statement"""
    src = PRELUDE + r'''
var cases []func()

type S struct {
	A int
	B string
	C [3]int64
}

type Obj struct{ id int }

func (o Obj) Val(a int, s S, ch chan string)   { ch <- "Val" + itoa(int64(o.id)) + "/" + itoa(int64(a)) + "/" + s.B + itoa(s.C[2]) }
func (o *Obj) Ptr(a int, s S, ch chan string)  { ch <- "Ptr" + itoa(int64(o.id)) + "/" + itoa(int64(a)) + "/" + s.B + itoa(s.C[2]) }

type Runner interface{ Val(a int, s S, ch chan string) }

func plain(a int, s S, ch chan string) { ch <- "plain/" + itoa(int64(a)) + "/" + s.B + itoa(s.C[2]) }

func variadic(ch chan string, xs ...int) {
	t := 0
	for _, x := range xs {
		t = t*10 + x
	}
	ch <- "var" + itoa(int64(len(xs))) + "/" + itoa(int64(t))
}

func gen[T any](v T, ch chan string, show func(T) string) { ch <- "gen/" + show(v) }

func collect(ch chan string, n int) string {
	// order of completion is not specified: collect and sort
	var got []string
	for i := 0; i < n; i++ {
		got = append(got, <-ch)
	}
	for i := 1; i < len(got); i++ {
		for j := i; j > 0 && got[j] < got[j-1]; j-- {
			got[j], got[j-1] = got[j-1], got[j]
		}
	}
	out := ""
	for _, g := range got {
		out += g + " "
	}
	return out
}

func main() {
	cases = append(cases, func() {
		ch := make(chan string, 64)
		a := 1
		s := S{2, "s", [3]int64{0, 0, 3}}
		o := Obj{4}
		po := &Obj{5}
		var r Runner = Obj{6}
		n := 0
		go plain(a, s, ch); n++
		go o.Val(a, s, ch); n++
		go po.Ptr(a, s, ch); n++
		go r.Val(a, s, ch); n++
		f := o.Val
		go f(a, s, ch); n++
		g := (*Obj).Ptr
		go g(po, a, s, ch); n++
		go func(x int) { ch <- "lit/" + itoa(int64(x)) + "/" + itoa(int64(a)) }(a); n++
		go variadic(ch); n++
		go variadic(ch, 1, 2, 3); n++
		xs := []int{4, 5}
		go variadic(ch, xs...); n++
		go gen(7, ch, func(v int) string { return itoa(int64(v)) }); n++
		go gen(s, ch, func(v S) string { return v.B }); n++
		// every value is mutated right after the go statement: the goroutines must see the values at the statement
		out := collect(ch, n)
		emit("go/forms", out)
	})
	cases = append(cases, func() {
		ch := make(chan string, 64)
		a := 1
		s := S{2, "s", [3]int64{0, 0, 3}}
		o := Obj{4}
		n := 0
		go plain(a, s, ch); n++
		a, s.B, s.C[2] = 100, "changed", 99
		go o.Val(a, s, ch); n++
		o.id = 40
		a = 200
		xs := []int{4, 5}
		go variadic(ch, xs...); n++
		xs = []int{9}
		emit("go/mutated-after", collect(ch, n))
	})
	cases = append(cases, func() {
		ch := make(chan string, 64)
		n := 0
		for i := 0; i < 4; i++ {
			s := S{i, "L", [3]int64{0, 0, int64(i * 10)}}
			go plain(i, s, ch); n++
			go func() { ch <- "loopvar/" + itoa(int64(i)) }(); n++
			o := Obj{i}
			go o.Val(i, s, ch); n++
		}
		emit("go/in-loop", collect(ch, n))
	})
	runAll(cases)
}
'''
    return src


def programs(tier):
    return {"atomics": prog_atomics(), "gostmt": prog_go()}


if __name__ == "__main__":
    import os
    for k, v in programs("quick").items():
        d = os.path.join(sys.argv[1], k)
        os.makedirs(d, exist_ok=True)
        open(os.path.join(d, "main.go"), "w").write(v)
        open(os.path.join(d, "go.mod"), "w").write("module vt\n\ngo 1.24\n")
