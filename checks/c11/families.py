QUICK = [("sema", "s1t2", 2, 1, 0), ("sema", "s1t3", 2, 1, 0), ("sema", "s2t2", 2, 1, 0), ("notify", "n2", 3, 1, 0), ("notify", "n3", 2, 1, 0),
         ("sync", "mutex", 3, 1, 0), ("sync", "rwmutex", 3, 1, 0), ("sync", "waitgroup", 3, 1, 0), ("sync", "once", 3, 1, 0), ("sync", "cond", 3, 1, 0),
         ("value", "v2", 3, 0, 0), ("value", "v3", 3, 0, 0)]
THOROUGH = [("sema", "s1t2", 4, 1, 0), ("sema", "s1t3", 3, 1, 0), ("sema", "s2t2", 3, 1, 0), ("sema", "s2t3", 2, 1, 0), ("sema", "s1t3x", 2, 1, 300000),
            ("sema", "s1t4", 3, 1, 0), ("notify", "n2", 4, 2, 0), ("notify", "n3", 3, 1, 0), ("notify", "n4", 2, 1, 300000),
            ("sync", "mutex", 4, 1, 0), ("sync", "rwmutex", 4, 1, 0), ("sync", "waitgroup", 3, 1, 0), ("sync", "once", 4, 1, 0), ("sync", "cond", 3, 1, 0),
            ("sync", "mutexx", 3, 1, 0), ("sync", "rwmutexx", 3, 1, 0), ("sync", "waitgroupx", 2, 1, 0), ("sync", "oncex", 3, 1, 0), ("sync", "condx", 2, 1, 0),
            ("value", "v2", 5, 0, 0), ("value", "v3", 4, 0, 0), ("value", "v2x", 3, 0, 0), ("value", "v3x", 3, 0, 0)]
