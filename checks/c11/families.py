QUICK = [("sema", "s1t2", 2, 1, 0), ("sema", "s1t3", 2, 1, 0), ("sema", "s2t2", 2, 1, 0), ("notify", "n2", 3, 1, 0), ("notify", "n3", 2, 1, 0)]
THOROUGH = [("sema", "s1t2", 4, 1, 0), ("sema", "s1t3", 3, 1, 0), ("sema", "s2t2", 3, 1, 0), ("sema", "s2t3", 2, 1, 0), ("sema", "s1t3x", 2, 1, 300000),
            ("sema", "s1t4", 3, 1, 0), ("notify", "n2", 4, 2, 0), ("notify", "n3", 3, 1, 0), ("notify", "n4", 2, 1, 300000)]
