#!/usr/bin/env python3
"""C10: the real z_chan.go (copied from the working tree at check time) under the controlled scheduler:
all scenarios of the families below x all interleavings within the preemption/spurious-wake-up bounds;
every terminal outcome must be one that a reference Go-channel LTS allows."""
import argparse, json, os, sys, subprocess
sys.path.insert(0, "/verif/lib")
from common import *
from schedrun import *
ap = argparse.ArgumentParser()
ap.add_argument("--id", default="C10"); ap.add_argument("--tier", default=os.environ.get("VERIF_TIER", "quick")); ap.add_argument("--replay")
a = ap.parse_args()
build_explorer()
if a.replay:
    sys.exit(subprocess.run([EXPLORE, "-mode", "replay", "-replay", a.replay]).returncode)
rep = Report("C10", a.tier, "model_checking")
import importlib.util
spec = importlib.util.spec_from_file_location("fam", "/verif/checks/c10/families.py"); fam = importlib.util.module_from_spec(spec); spec.loader.exec_module(fam)
if a.tier == "thorough":
    aggs = run_families(fam.THOROUGH, budget_s=3000)
else:
    aggs = run_families(fam.QUICK, budget_s=900)
report_families(rep, aggs)
rep.coverage["rule"] = ("scenario = channel capacities x per-thread straight-line programs of send/recv/close/try-send/try-recv/select (all programs up to the family's "
    "length, reduced by thread permutation); for each scenario every interleaving at Lock/Wait/Signal/Broadcast granularity within the preemption and "
    "spurious-wake-up bounds, every choice of the waiter a Signal wakes; states/transitions = scheduling points executed; traces_validated = complete "
    "executions of the real code whose terminal outcome was checked against the reference LTS; non-trivial = scenarios where schedules led to >1 distinct outcome")
rep.assumptions += ["pthread mutex/cond modelled sequentially consistent; Signal may wake any waiter; <=1 spurious wake-up per execution",
                    "scenarios exclude close() on channels used by select-send/try-send and double close (Go panics there; that is C03's subject)",
                    "a non-blocking operation may take default while its unbuffered partner is pending (Go cannot distinguish 'not yet blocked')"]
rep.finish()
