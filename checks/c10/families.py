# (mode, family, preemption bound, spurious wake-up bound, per-scenario execution cap (0 = none; deterministic DFS prefix))
QUICK = [("chan", "c1t2", 2, 1, 0), ("chan", "c1t3", 2, 0, 0), ("chan", "c1sel", 2, 1, 0), ("chan", "c2sel", 2, 0, 0)]
THOROUGH = [("chan", "c1t2", 3, 1, 0), ("chan", "c1t3", 2, 1, 0), ("chan", "c1sel", 3, 1, 0), ("chan", "c2sel", 3, 1, 0),
            ("chan", "c1t3x", 2, 1, 100000), ("chan", "c2selx", 2, 0, 20000)]
