#!/usr/bin/env python3
"""MANUAL tool (never run by a check): runs the C10 quick and thorough families to completion on the current tree and rewrites
known/C10_*.txt with every (scenario => disallowed outcome) pair found. Only to be used after each listed root cause has been
confirmed as a genuine defect (DESIGN.md §7)."""
import json, os, re, sys, glob
sys.path.insert(0, "/verif/lib")
from common import *
from schedrun import *
build_explorer()
sets = {"tryops": set(), "select": set()}
def collect(aggs):
    for a in aggs:
        print(a["family"], a["scenarios"], a["execs"], "timed_out", a["timed_out"], "capped", a["scenarios_capped"], "viol", len(a["violations"]), "crashed", a["crashed"][:1])
        for v in a["violations"]:
            k = v["key"].strip()
            sc = k.split(" => ")[0]
            sets["select" if re.search(r"[LT]\(", sc) else "tryops"].add(k)
import importlib.util
spec = importlib.util.spec_from_file_location("fam", "/verif/checks/c10/families.py"); fam = importlib.util.module_from_spec(spec); spec.loader.exec_module(fam)
collect(run_families(fam.QUICK))
collect(run_families(fam.THOROUGH))
os.makedirs("/verif/known", exist_ok=True)
for name, s in sets.items():
    with open("/verif/known/C10_%s.txt" % name, "w") as f:
        for k in sorted(s):
            f.write(k + "\n")
    print(name, len(s))
