"""Shared main() for the differential checks (generated batch programs, llgo vs go)."""
import argparse, json, os, sys
sys.path.insert(0, "/verif/lib")
from common import *
from diff import *


def main(pid, level, programs_fn, rule, samples, assumptions, quick_backends=(("A", ()), ("C", ())),
         thorough_backends=(("A", ()), ("C", ()), ("A", ("nogc",))), timeout=900, workers=8, seeds=(None,), extra=None, post=None, canon=None):
    ap = argparse.ArgumentParser()
    ap.add_argument("--id", default=pid); ap.add_argument("--tier", default=os.environ.get("VERIF_TIER", "quick")); ap.add_argument("--replay")
    a = ap.parse_args()
    thorough = a.tier == "thorough"
    rep = Report(pid, a.tier, level)
    backends = thorough_backends if thorough else quick_backends
    progs = []
    for name, spec in programs_fn(a.tier).items():
        files = spec if isinstance(spec, dict) else {"main.go": spec}
        progs.append(Prog(name, files, backends=backends, seeds=seeds))
    if a.replay:
        want = (json.load(open(a.replay)).get("replay") or {}).get("program")
        progs = [p for p in progs if p.name == want] or progs
    results = pmap(lambda p: diff_prog(pid, p, timeout=timeout, canon=canon), progs, workers=workers)
    nprog, ncases, ndist = report_diff(rep, pid, results)
    rep.coverage.update(evaluations=ncases, distinct_nontrivial=ndist, programs=nprog, exhaustive=True,
                        backends=[b[0] + ("+" + ",".join(b[1]) if b[1] else "") for b in backends], samples=samples, rule=rule)
    if extra:
        rep.coverage.update(extra)
    rep.assumptions += ["reference = go1.24.0 on linux/amd64; a generated program must build and run identically twice under it before it is used",
                        "backend A = llgo -O0 with LLVM 14 (opaque pointers); backend C = the same IR compiled by clang 22 -O2 (LLVM 14's own O2 pipeline is unusable here)"] + list(assumptions)
    if post:
        post(rep, results, a)
    rep.finish()
