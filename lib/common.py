"""Common plumbing for all checks: tool-chain, builders, runners, evidence, known findings."""
import concurrent.futures as cf
import hashlib
import json
import os
import shutil
import subprocess
import sys
import time

VERIF = "/verif"
REPO = os.environ.get("VERIF_REPO", "/repo")            # seeded-change trials point this at a scratch worktree
BUILD = os.environ.get("VERIF_BUILD", os.path.join(VERIF, "build"))
GO124 = "/root/go/pkg/mod/golang.org/toolchain@v0.0.1-go1.24.0.linux-amd64"
SHIM = os.path.join(VERIF, "tc", "shim")
NCPU = os.cpu_count() or 8


def base_env():
    e = dict(os.environ)
    e["PATH"] = GO124 + "/bin:" + e.get("PATH", "")
    e.update(GOTOOLCHAIN="local", GOFLAGS="-mod=mod", GOPROXY="off", GONOSUMDB="*",
             GOCACHE=os.environ.get("VERIF_GOCACHE", os.path.join(BUILD, "gocache")))
    e.pop("GOROOT", None)
    return e


_llgo = None


def tree_hash():
    out = subprocess.run(
        "cd " + REPO + " && git ls-files -co --exclude-standard -- cmd cl ssa internal xtool go.mod go.sum runtime targets"
        " | LC_ALL=C sort | xargs -d '\\n' sha256sum 2>/dev/null | sha256sum | cut -c1-16",
        shell=True, capture_output=True, text=True).stdout.strip()
    return out


def llgo_path():
    """(Re)build llgo from /repo's working tree; cached by tree hash."""
    global _llgo
    if _llgo is None:
        e = base_env(); e["VERIF_REPO"] = REPO; e["VERIF_BUILD"] = BUILD
        r = subprocess.run([os.path.join(VERIF, "tc", "build_llgo.sh")], capture_output=True, text=True, env=e)
        if r.returncode != 0:
            sys.stderr.write(r.stderr)
            raise RuntimeError("llgo build failed (the working tree does not compile)")
        _llgo = r.stdout.strip().splitlines()[-1]
    return _llgo


def llgo_env(backend="A", cachetag=""):
    e = base_env()
    llgo = llgo_path()
    key = os.path.basename(os.path.dirname(llgo))
    xdg = os.path.join(BUILD, "xdg", "%s-%s%s" % (key, backend, cachetag))
    os.makedirs(xdg, exist_ok=True)
    tmp = os.path.join(BUILD, "tmp", "%d" % os.getpid())
    os.makedirs(tmp, exist_ok=True)
    e.update(LLGO_ROOT=REPO, LLVM_CONFIG=os.path.join(SHIM, "bin", "llvm-config"), XDG_CACHE_HOME=xdg,
             TMPDIR=tmp, VERIF_BACKEND=backend)
    return e


def gc_old_caches():
    """Remove llgo package caches belonging to other tree hashes (disk hygiene)."""
    try:
        cur = os.path.basename(os.path.dirname(llgo_path()))
        d = os.path.join(BUILD, "xdg")
        ents = sorted(os.listdir(d), key=lambda n: os.path.getmtime(os.path.join(d, n)))
        old = [n for n in ents if not n.startswith(cur)]
        for n in old[:-6] if len(old) > 6 else []:
            shutil.rmtree(os.path.join(d, n), ignore_errors=True)
    except Exception:
        pass


def write_module(dirpath, files, modname="vt"):
    """files: {relative path: text}. Writes a Go module."""
    if os.path.exists(dirpath):
        shutil.rmtree(dirpath)
    os.makedirs(dirpath)
    if "go.mod" not in files:
        files = dict(files)
        files["go.mod"] = "module %s\n\ngo 1.24\n" % modname
    for rel, txt in files.items():
        p = os.path.join(dirpath, rel)
        os.makedirs(os.path.dirname(p), exist_ok=True)
        mode = "wb" if isinstance(txt, bytes) else "w"
        with open(p, mode) as f:
            f.write(txt)


class BuildError(Exception):
    pass


def build_llgo(dirpath, out, backend="A", tags=(), pkg=".", extra_args=(), env_extra=None, timeout=1800, cachetag=""):
    e = llgo_env(backend, cachetag)
    if env_extra:
        e.update(env_extra)
    # -O0 always: LLVM 14's in-process default<O2> pipeline is unusable on this IR (DESIGN §2); backend C optimises with clang 22 -O2
    cmd = [llgo_path(), "build", "-O0", "-o", out]
    if backend in ("B", "C"):
        cmd.append("-gen-llfiles")
    if tags:
        cmd += ["-tags", ",".join(tags)]
    cmd += list(extra_args) + [pkg]
    r = subprocess.run(cmd, cwd=dirpath, env=e, capture_output=True, text=True, timeout=timeout)
    if r.returncode != 0 or not os.path.exists(out):
        raise BuildError("llgo build failed (%s) in %s:\n%s\n%s" % (backend, dirpath, r.stdout[-3000:], r.stderr[-6000:]))
    return r


def build_go(dirpath, out, tags=(), pkg=".", timeout=900):
    e = base_env()
    cmd = ["go", "build", "-o", out]
    if tags:
        cmd += ["-tags", ",".join(tags)]
    cmd.append(pkg)
    r = subprocess.run(cmd, cwd=dirpath, env=e, capture_output=True, text=True, timeout=timeout)
    if r.returncode != 0:
        raise BuildError("go build failed in %s:\n%s" % (dirpath, r.stderr[-6000:]))
    return r


def run_exe(exe, args=(), stdin=None, env_extra=None, timeout=120, seed=None, cwd=None, memlimit_kb=8 * 1024 * 1024, stall=None):
    e = {"PATH": "/usr/bin:/bin", "HOME": "/root", "LD_LIBRARY_PATH": os.path.join(SHIM, "lib")}
    if seed is not None:
        e["LD_PRELOAD"] = os.path.join(SHIM, "lib", "librandseam.so")
        e["VERIF_RAND_SEED"] = str(seed)
    if env_extra:
        e.update(env_extra)
    pre = "ulimit -v %d; exec \"$0\" \"$@\"" % memlimit_kb
    if stall:
        # batch programs print a line per case: no new output for `stall` seconds is a hang (reported as a timeout) long before the overall limit
        import threading
        p = subprocess.Popen(["/bin/sh", "-c", pre, exe] + list(args), stdin=subprocess.PIPE if stdin is not None else subprocess.DEVNULL,
                             stdout=subprocess.PIPE, stderr=subprocess.PIPE, env=e, cwd=cwd)
        bufs = {"o": [], "e": []}
        last = [time.time()]

        def pump(f, key):
            while True:
                b = f.read1(65536) if hasattr(f, "read1") else f.read(65536)
                if not b:
                    break
                bufs[key].append(b)
                if key == "o":
                    last[0] = time.time()
        ts = [threading.Thread(target=pump, args=(p.stdout, "o"), daemon=True), threading.Thread(target=pump, args=(p.stderr, "e"), daemon=True)]
        for t in ts:
            t.start()
        if stdin is not None:
            try:
                p.stdin.write(stdin); p.stdin.close()
            except OSError:
                pass
        t0 = time.time()
        rc = None
        while True:
            try:
                rc = p.wait(timeout=0.5)
                break
            except subprocess.TimeoutExpired:
                now = time.time()
                if now - t0 > timeout or now - last[0] > stall:
                    p.kill(); p.wait()
                    rc = "timeout"
                    break
        for t in ts:
            t.join(timeout=5)
        return rc, b"".join(bufs["o"]).decode("utf-8", "replace"), b"".join(bufs["e"]).decode("utf-8", "replace")
    try:
        r = subprocess.run(["/bin/sh", "-c", pre, exe] + list(args), input=stdin, env=e, capture_output=True,
                           timeout=timeout, cwd=cwd)
        return r.returncode, r.stdout.decode("utf-8", "replace"), r.stderr.decode("utf-8", "replace")
    except subprocess.TimeoutExpired as ex:
        so = (ex.stdout or b"").decode("utf-8", "replace")
        se = (ex.stderr or b"").decode("utf-8", "replace")
        return "timeout", so, se


def pmap(fn, items, workers=None):
    workers = workers or NCPU
    with cf.ThreadPoolExecutor(max_workers=workers) as ex:
        return list(ex.map(fn, items))


def go_test_overlay(pkgdir, testfiles, run, tags=(), env_extra=None, timeout=3600, extra_overlay=None, args=()):
    """Run `go test` in /repo/<pkgdir> with test files injected through -overlay.
    testfiles: {name placed in the package dir: source path}."""
    e = base_env()
    if env_extra:
        e.update(env_extra)
    ovdir = os.path.join(BUILD, "ov")
    os.makedirs(ovdir, exist_ok=True)
    rep = {}
    for name, src in testfiles.items():
        rep[os.path.join(REPO, pkgdir, name)] = src
    if extra_overlay:
        rep.update(extra_overlay)
    h = hashlib.sha1(json.dumps(rep, sort_keys=True).encode()).hexdigest()[:12]
    ovf = os.path.join(ovdir, "ov_%s.json" % h)
    with open(ovf, "w") as f:
        json.dump({"Replace": rep}, f)
    cmd = ["go", "test", "-overlay", ovf, "-vet=off", "-count=1", "-timeout", "%ds" % timeout, "-run", run]
    if tags:
        cmd += ["-tags", ",".join(tags)]
    cmd += ["./" + pkgdir] + list(args)
    r = subprocess.run(cmd, cwd=REPO, env=e, capture_output=True, text=True, timeout=timeout + 60)
    return r


# ------------------------------------------------------------------ evidence / findings

def load_known(pid):
    """known_findings.txt lines:
         known: property=<id> key=<key> :: <what fails>
         fixed: property=<id> <commit> <what failed>        (informational; suppresses nothing)"""
    res = []
    p = os.path.join(VERIF, "known_findings.txt")
    if os.path.exists(p):
        for l in open(p):
            l = l.rstrip("\n")
            if not l.startswith("known: property=%s " % pid):
                continue
            rest = l.split(" ", 2)[2]
            if rest.startswith("set="):
                # a root cause with many failing inputs: the listed inputs are in a file, one key per line
                setf, _, what = rest[4:].partition(" :: ")
                for k in open(os.path.join(VERIF, setf)):
                    k = k.rstrip("\n")
                    if k:
                        res.append({"property": pid, "status": "known", "key": k, "what": what, "set": setf})
                continue
            if not rest.startswith("key="):
                continue
            key, _, what = rest[4:].partition(" :: ")
            res.append({"property": pid, "status": "known", "key": key, "what": what})
    return res


class Report:
    """Collects violations; separates listed known findings; writes evidence; exits."""

    def __init__(self, pid, tier, level):
        self.pid, self.tier, self.level = pid, tier, level
        self.t0 = time.time()
        self.known = {d["key"]: d for d in load_known(pid) if d.get("status") == "known"}
        self.set_hits = {}
        self.viol = []   # (key, what, replay_obj)
        self.known_hit = {}
        self.coverage = {}
        self.assumptions = []
        self.seed = int(os.environ.get("VERIF_SEED", "0") or 0)

    def violation(self, key, what, replay=None):
        if key in self.known and "set" in self.known[key]:
            h = self.set_hits.setdefault(self.known[key]["set"], [0, key, self.known[key]["what"]])
            h[0] += 1
        elif key in self.known:
            self.known_hit[key] = what
        else:
            self.viol.append((key, what, replay))

    def finish(self):
        out_base = BUILD if os.environ.get("VERIF_TRIAL") else VERIF   # seeded-change trials must not touch the real evidence
        os.makedirs(os.path.join(out_base, "evidence"), exist_ok=True)
        rd = os.path.join(out_base, "replays", self.pid)
        os.makedirs(rd, exist_ok=True)
        for old in os.listdir(rd):
            if old.endswith(".json"):
                os.remove(os.path.join(rd, old))
        for setf, (n, ex, what) in sorted(self.set_hits.items()):
            print("KNOWN-FINDING: property=%s %s :: %d listed inputs of %s reproduced, e.g. %s" % (self.pid, what, n, setf, ex))
        for key, what in sorted(self.known_hit.items()):
            print("KNOWN-FINDING: property=%s %s :: %s" % (self.pid, key, what[:300].replace("\n", " | ")))
        seen = set()
        nviol = 0
        for key, what, replay in self.viol:
            if key in seen:
                continue
            seen.add(key)
            nviol += 1
            if nviol > 25:
                continue
            name = hashlib.sha1(key.encode()).hexdigest()[:12] + ".json"
            path = os.path.join(rd, name)
            with open(path, "w") as f:
                json.dump({"property": self.pid, "key": key, "what": what, "replay": replay}, f, indent=1)
            print("VIOLATION property=%s replay=%s" % (self.pid, path))
            print("  key=%s\n  %s" % (key, what[:1500]))
        ev = {
            "property_id": self.pid, "tier": self.tier, "seed": self.seed, "level": self.level,
            "coverage": self.coverage, "assumptions": self.assumptions,
            "wall_s": round(time.time() - self.t0, 2), "violations": nviol,
        }
        ev["coverage"]["known_findings_reproduced"] = sorted(self.known_hit) + ["%s (%d listed inputs)" % (k, v[0]) for k, v in sorted(self.set_hits.items())]
        with open(os.path.join(out_base, "evidence", self.pid + ".json"), "w") as f:
            json.dump(ev, f, indent=1, sort_keys=True)
        print("%s tier=%s violations=%d known=%d wall=%.1fs coverage: %s" % (
            self.pid, self.tier, nviol, len(self.known_hit) + sum(v[0] for v in self.set_hits.values()), time.time() - self.t0,
            {k: v for k, v in self.coverage.items() if isinstance(v, (int, bool, float))}))
        sys.exit(1 if nviol else 0)


def workdir(pid, name=""):
    d = os.path.join(BUILD, "work", pid, name)
    os.makedirs(d, exist_ok=True)
    return d
