"""Driver for the E2 explorer binary: builds it against the working-tree sources, shards families over processes."""
import json, os, subprocess, sys, time
sys.path.insert(0, "/verif/lib")
from common import *

EXPLORE = os.path.join(BUILD, "sched", "explore")


def build_explorer():
    r = subprocess.run(["/verif/sched/gen.sh"], capture_output=True, text=True)
    if r.returncode != 0:
        raise BuildError("explorer does not build against the working-tree runtime sources:\n" + r.stderr[-4000:])


def run_families(fams, nshards=16, budget_s=0):
    """fams: list of (mode, family, preempt, spurious, maxexecs). Returns list of per-family aggregated dicts."""
    work = workdir("sched")
    jobs = []
    for mode, fam, pre, spur, maxexecs in fams:
        for sh in range(nshards):
            out = os.path.join(work, "%s_%s_%d.json" % (mode, fam, sh))
            if os.path.exists(out):
                os.remove(out)
            cmd = [EXPLORE, "-mode", mode, "-family", fam, "-shard", str(sh), "-nshards", str(nshards), "-preempt", str(pre),
                   "-spurious", str(spur), "-maxexecs", str(maxexecs), "-out", out]
            if budget_s:
                cmd += ["-budget", str(budget_s)]
            jobs.append((mode, fam, sh, out, cmd))
    env = dict(os.environ); env["GOMAXPROCS"] = "1"

    def run(j):
        r = subprocess.run(j[4], env=env, capture_output=True, text=True)
        return j, r
    res = pmap(run, jobs, workers=NCPU)
    agg = {}
    for (mode, fam, sh, out, cmd), r in res:
        key = (mode, fam)
        a = agg.setdefault(key, {"mode": mode, "family": fam, "scenarios": 0, "execs": 0, "points": 0, "deadlock_terminals": 0, "horizon_hits": 0,
                                 "distinct_outcomes_total": 0, "scenarios_with_several_outcomes": 0, "scenarios_capped": 0, "timed_out": False,
                                 "violations": [], "samples": [], "max_choice_depth": 0, "crashed": []})
        if r.returncode != 0 or not os.path.exists(out):
            a["crashed"].append((sh, (r.stderr or r.stdout)[-1500:]))
            continue
        d = json.load(open(out))
        for k in ("scenarios", "execs", "points", "deadlock_terminals", "horizon_hits", "distinct_outcomes_total", "scenarios_with_several_outcomes", "scenarios_capped"):
            a[k] += d[k]
        a["timed_out"] = a["timed_out"] or d["timed_out"]
        a["violations"] += d.get("violations") or []
        a["samples"] += d.get("samples") or []
        a["max_choice_depth"] = max(a["max_choice_depth"], d["max_choice_depth"])
        a["bounds"] = d["bounds"]
    return list(agg.values())


def report_families(rep, aggs):
    tot = {"scenarios": 0, "execs": 0, "points": 0, "multi": 0, "outcomes": 0, "dead": 0}
    exhaustive = True
    fams = {}
    samples = []
    for a in aggs:
        for sh, err in a["crashed"]:
            rep.violation("harness:%s/%s" % (a["mode"], a["family"]), "explorer shard %d crashed:\n%s" % (sh, err))
            exhaustive = False
        for v in a["violations"]:
            rep.violation(v["key"].strip(), v["what"], v)
        tot["scenarios"] += a["scenarios"]; tot["execs"] += a["execs"]; tot["points"] += a["points"]
        tot["multi"] += a["scenarios_with_several_outcomes"]; tot["outcomes"] += a["distinct_outcomes_total"]; tot["dead"] += a["deadlock_terminals"]
        if a["timed_out"] or a["scenarios_capped"] or a["horizon_hits"]:
            exhaustive = False
        fams["%s/%s" % (a["mode"], a["family"])] = {k: a[k] for k in ("scenarios", "execs", "points", "deadlock_terminals", "horizon_hits",
            "distinct_outcomes_total", "scenarios_with_several_outcomes", "scenarios_capped", "timed_out", "max_choice_depth")} | {"bounds": a.get("bounds")}
        samples += a["samples"][:2]
    rep.coverage.update(states=tot["points"], transitions=tot["points"], traces_validated_against_impl=tot["execs"],
                        evaluations=tot["execs"], distinct_nontrivial=tot["multi"], exhaustive=exhaustive,
                        scenarios=tot["scenarios"], schedules=tot["execs"], scheduling_points=tot["points"],
                        scenarios_with_several_outcomes=tot["multi"], distinct_outcomes_total=tot["outcomes"],
                        terminal_states_with_blocked_threads=tot["dead"], families=fams, samples=samples or ["(no multi-outcome scenario)"])
