PRELUDE = r'''package main

import (
	"os"
	"unsafe"
)

var _ = unsafe.Pointer(nil)

func utoa(v uint64) string {
	if v == 0 {
		return "0"
	}
	var b [24]byte
	i := len(b)
	for v > 0 {
		i--
		b[i] = byte('0' + v%10)
		v /= 10
	}
	return string(b[i:])
}

func itoa(v int64) string {
	if v < 0 {
		return "-" + utoa(uint64(-(v+1))+1)
	}
	return utoa(uint64(v))
}

func btoa(b bool) string {
	if b {
		return "t"
	}
	return "f"
}

func f64bits(f float64) string { return utoa(*(*uint64)(unsafe.Pointer(&f))) }
func f32bits(f float32) string { return utoa(uint64(*(*uint32)(unsafe.Pointer(&f)))) }

var obuf []byte

func emit(id string, obs string) {
	obuf = append(obuf[:0], "CASE "...)
	obuf = append(obuf, id...)
	obuf = append(obuf, ' ')
	obuf = append(obuf, obs...)
	obuf = append(obuf, '\n')
	os.Stdout.Write(obuf)
}

func startIndex() int {
	n := 0
	if len(os.Args) > 1 {
		for _, c := range os.Args[1] {
			n = n*10 + int(c-'0')
		}
	}
	return n
}

func runAll(cases []func()) {
	for i := startIndex(); i < len(cases); i++ {
		os.Stdout.WriteString("NEXT " + itoa(int64(i)) + "\n")
		cases[i]()
	}
	os.Stdout.WriteString("ALLDONE\n")
}
'''
