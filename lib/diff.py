"""E1: build-and-compare runner. A *batch program* prints one line per case: `CASE <id> <observations>`.
It accepts argv[1] = first case index to run (for crash isolation). The same source is built by go1.24.0
(reference) and by llgo from /repo's working tree on one or more backends, and the per-case lines are compared."""
import hashlib, os, re, shutil, sys
sys.path.insert(0, "/verif/lib")
from common import *

CASE_RE = re.compile(r"^CASE (\S+) ?(.*)$")


def parse_cases(out):
    cases, order = {}, []
    for ln in out.splitlines():
        m = CASE_RE.match(ln)
        if m:
            cid = m.group(1)
            if cid not in cases:
                order.append(cid)
                cases[cid] = m.group(2)
            else:
                cases[cid] += "\n" + m.group(2)
    return cases, order


def run_batch(exe, ncases_hint=None, stdin=None, seed=None, timeout=300, env_extra=None):
    """Runs a batch program to completion, restarting after a crash at the case following the last one printed.
    Returns (cases dict, order, crashes list[(after_case, rc, stderr tail)])."""
    cases, order, crashes = {}, [], []
    start = 0
    hangs = 0
    for _ in range(200):
        rc, out, err = run_exe(exe, [str(start)], stdin=stdin, seed=seed, timeout=timeout, env_extra=env_extra, stall=max(120, timeout / 5))
        if rc == "timeout":
            hangs += 1
        c, o = parse_cases(out)
        for k in o:
            if k not in cases:
                order.append(k)
            cases[k] = c[k]
        done = "ALLDONE" in out
        if rc == 0 and done:
            break
        # crashed / exited early / timed out: the case after the last printed one is the culprit
        m = re.findall(r"^NEXT (\d+)$", out, re.M)
        nxt = int(m[-1]) if m else None
        crashes.append((o[-1] if o else None, rc, (err or "")[-400:], nxt))
        if nxt is None or nxt + 1 <= start or hangs >= 5:
            break   # (after 5 hangs the remaining cases are reported as missing rather than waited for)
        start = nxt + 1
    return cases, order, crashes


class Prog:
    def __init__(self, name, files, backends=(("A", ()),), seeds=(None,), stdin=None, tags=(), note=""):
        self.name, self.files, self.backends, self.seeds, self.stdin, self.tags, self.note = name, files, backends, seeds, stdin, tags, note


def diff_prog(pid, prog, timeout=300, canon=None):
    """Build with go and llgo, run, compare. Returns dict(ref_cases, results: list of (config, diffs, crashes, build_error))."""
    d = workdir(pid, prog.name)
    src = os.path.join(d, "src")
    write_module(src, prog.files)
    res = {"name": prog.name, "configs": [], "ncases": 0, "ref_error": None, "distinct_outputs": 0}
    ref_exe = os.path.join(d, "ref.exe")
    try:
        build_go(src, ref_exe, tags=prog.tags)
    except BuildError as e:
        res["ref_error"] = str(e)[-3000:]
        return res
    refs = {}
    for seed in prog.seeds:
        rc1 = run_batch(ref_exe, stdin=prog.stdin, timeout=timeout)
        rc2 = run_batch(ref_exe, stdin=prog.stdin, timeout=timeout)
        if rc1[0] != rc2[0] or rc1[2]:
            # the reference itself is not deterministic / crashes: the program is rejected (harness problem), never blamed on llgo
            res["ref_error"] = "reference run unstable or crashing: crashes=%r" % (rc1[2][:2],)
            return res
        refs[seed] = rc1
    ref_cases, ref_order, _ = refs[prog.seeds[0]]
    res["ncases"] = len(ref_cases)
    res["ref_cases"] = ref_cases
    res["distinct_outputs"] = len(set(ref_cases.values()))
    for backend, extra_tags in prog.backends:
        cfg = backend + ("+" + ",".join(extra_tags) if extra_tags else "")
        exe = os.path.join(d, "llgo_%s.exe" % cfg.replace("+", "_").replace(",", "_"))
        entry = {"config": cfg, "diffs": [], "crashes": [], "build_error": None}
        try:
            build_llgo(src, exe, backend=backend, tags=tuple(prog.tags) + tuple(extra_tags))
        except BuildError as e:
            entry["build_error"] = str(e)[-3000:]
            res["configs"].append(entry)
            continue
        for seed in prog.seeds:
            cases, order, crashes = run_batch(exe, stdin=prog.stdin, seed=seed, timeout=timeout)
            rc_cases = refs[seed][0]
            for cid in refs[seed][1]:
                got = cases.get(cid)
                same = got == rc_cases[cid]
                if not same and canon and got is not None:
                    # compare only what the property defines (canon maps an observation to its specified content)
                    same = canon(got) == canon(rc_cases[cid])
                if not same:
                    entry["diffs"].append((cid, rc_cases[cid], got, seed))
            for cid in order:
                if cid not in rc_cases:
                    entry["diffs"].append((cid, None, cases[cid], seed))
            entry["crashes"] += [(c[0], c[1], c[2], seed) for c in crashes]
        res["configs"].append(entry)
    return res


def report_diff(rep, pid, results, describe=None, max_per_prog=60):
    """Turn diff results into violations. Key = program/case id (stable), so known findings can name specific cases."""
    ncases = ndist = nprog = 0
    for r in results:
        nprog += 1
        if r["ref_error"]:
            rep.violation("harness:%s" % r["name"], "generated program is not a valid reference program: " + r["ref_error"])
            continue
        ncases += r["ncases"]; ndist += r["distinct_outputs"]
        for e in r["configs"]:
            if e["build_error"]:
                rep.violation("build:%s:%s" % (r["name"], e["config"]), "llgo failed to build a program the reference toolchain builds:\n" + e["build_error"][-1500:])
                continue
            seen = 0
            for cid, want, got, seed in e["diffs"]:
                seen += 1
                if seen > max_per_prog:
                    break
                d = describe(r["name"], cid) if describe else ""
                rep.violation("%s:%s" % (r["name"], cid),
                              "case %s of %s [%s%s]: llgo prints %r, go prints %r %s" % (cid, r["name"], e["config"], "" if seed is None else " seed=%s" % seed, got, want, d),
                              {"program": r["name"], "case": cid, "config": e["config"], "seed": seed})
    return nprog, ncases, ndist
